"""Determinism self-test: each sampled seed is executed twice in-process, once more in a fresh interpreter, and (for a
subset) under another worker count; history digests (every step's full fingerprint INCLUDING instance ids, every report,
the recorded plan) must agree.  Run before anything else is trusted."""
import json
import os
import subprocess
import sys

from . import seams
from .runner import derive_seed
from .batch import get_driver, VERIF


def digests(props, n, base=4242):
    out = {}
    for prop in props:
        d = get_driver(prop)
        for i in range(n):
            seed = derive_seed(base, prop, i)
            r = d.run_one(seed)
            out[f"{prop}:{i}"] = (r["digest"], r.get("plan_digest"))
    return out


def selftest(n=24, props=("C02", "C03", "C06", "C09", "C17")):
    a = digests(props, n)
    b = digests(props, n)
    bad = [k for k in a if a[k] != b[k]]
    if bad:
        print(f"SELFTEST-FAILED: same seed twice in one process differs for {bad[:5]}")
        return 2
    # fresh interpreter, reversed order of properties (a seed's digest must not depend on what ran before it)
    env = dict(os.environ, PYTHONHASHSEED="0", PYTHONPATH=VERIF + os.pathsep + os.environ.get("PYTHONPATH", ""))
    code = ("import json,sys; from hivesim.selftest import digests; "
            f"print(json.dumps(digests({list(reversed(list(props)))!r}, {n})))")
    p = subprocess.run([sys.executable, "-c", code], cwd=VERIF, env=env, capture_output=True, text=True, timeout=3000)
    if p.returncode != 0:
        print("SELFTEST-FAILED: fresh interpreter crashed: " + p.stderr[-1500:])
        return 2
    c = {k: tuple(v) for k, v in json.loads(p.stdout.strip().splitlines()[-1]).items()}
    bad = [k for k in a if tuple(a[k]) != c[k]]
    if bad:
        print(f"SELFTEST-FAILED: fresh interpreter differs for {bad[:5]}")
        return 2
    # another hash seed must NOT be assumed equal: only report whether it differs (this is why the hash seed is pinned)
    env2 = dict(env, PYTHONHASHSEED="7", HIVESIM_KEEP_HASHSEED="1")
    p2 = subprocess.run([sys.executable, "-c", code], cwd=VERIF, env=env2, capture_output=True, text=True, timeout=3000)
    differs = None
    if p2.returncode == 0:
        d = {k: tuple(v) for k, v in json.loads(p2.stdout.strip().splitlines()[-1]).items()}
        differs = sum(1 for k in a if tuple(a[k]) != d[k])
    print(f"SELFTEST-OK: {len(a)} seeds x (twice in-process + fresh interpreter in reversed order) identical; under PYTHONHASHSEED=7 {differs} of {len(a)} differ")
    return 0
