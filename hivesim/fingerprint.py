"""Canonical, hash-order-independent fingerprints of HIVE values.

``canon`` turns anything reachable from a SimulationState into nested tuples of primitives: floats by repr, sets and maps
sorted, enums by name, uuids kept or dropped.  Nothing here calls HIVE code.
"""
import dataclasses
import enum
import hashlib
import uuid

import immutables
import numpy as np


def canon(x, drop_ids=False):
    if x is None or isinstance(x, (bool, str)):
        return x
    if isinstance(x, enum.Enum):
        return ("E", type(x).__name__, x.name)
    if isinstance(x, int):
        return int(x)
    if isinstance(x, float):
        return ("f", repr(x))
    if isinstance(x, uuid.UUID):
        return None if drop_ids else ("u", str(x))
    if dataclasses.is_dataclass(x) and not isinstance(x, type):
        return ("D", type(x).__name__, tuple((f.name, canon(getattr(x, f.name), drop_ids)) for f in dataclasses.fields(x)))
    if isinstance(x, tuple) and hasattr(x, "_fields"):
        return ("N", type(x).__name__, tuple((n, canon(v, drop_ids)) for n, v in zip(x._fields, x)))
    if isinstance(x, (tuple, list)):
        return ("T", tuple(canon(v, drop_ids) for v in x))
    if isinstance(x, (immutables.Map, dict)):
        return ("M", tuple(sorted(((canon(k, drop_ids), canon(v, drop_ids)) for k, v in x.items()), key=repr)))
    if isinstance(x, (set, frozenset)):
        return ("S", tuple(sorted((canon(v, drop_ids) for v in x), key=repr)))
    if isinstance(x, np.ndarray):
        return ("A", tuple(x.shape), hashlib.sha1(np.ascontiguousarray(x).tobytes()).hexdigest())
    if isinstance(x, np.generic):
        return canon(x.item(), drop_ids)
    if callable(x):
        return ("C", getattr(x, "__qualname__", type(x).__name__))
    return ("O", type(x).__name__)


_SIM_FIELDS_SKIP = ("road_network",)


def sim_canon(sim, drop_ids=True, with_applied=True):
    d = sim._asdict()
    return canon({k: v for k, v in d.items() if k not in _SIM_FIELDS_SKIP and (with_applied or k != "applied_instructions")}, drop_ids)


def digest(obj):
    return hashlib.sha256(repr(obj).encode()).hexdigest()


def sim_fp(sim, drop_ids=True, with_applied=True):
    return digest(sim_canon(sim, drop_ids, with_applied))


def entity_table(sim, drop_ids=True):
    """per-entity canonical forms, for printing the first differing entity/field"""
    out = {}
    for kind in ("vehicles", "stations", "bases", "requests"):
        for k, v in getattr(sim, kind).items():
            out[(kind, k)] = canon(v, drop_ids)
    for kind in ("v_locations", "r_locations", "s_locations", "b_locations", "v_search", "r_search", "s_search", "b_search",
                 "applied_instructions", "sim_time"):
        out[(kind, "")] = canon(getattr(sim, kind), drop_ids)
    return out


def first_difference(a, b, path=()):
    """first differing leaf of two canonical forms"""
    if type(a) != type(b):
        return path, a, b
    if isinstance(a, tuple):
        if len(a) != len(b):
            return path + ("len",), len(a), len(b)
        for i, (x, y) in enumerate(zip(a, b)):
            d = first_difference(x, y, path + (i,))
            if d is not None:
                return d
        return None
    return None if a == b else (path, a, b)


_SETLIKE_KEYS = ("fleet_id", "vehicle_memberships")


def canon_report(r, drop_session=True):
    """a Report as a hashable canonical tuple; session ids dropped; set-valued fields sorted"""
    items = []
    for k, v in r.report.items():
        if drop_session and k in ("session_id",):
            continue
        if k in _SETLIKE_KEYS:
            if v is None:
                v = ()
            elif isinstance(v, str):
                v = tuple(sorted(x for x in v.split(",") if x))
            elif hasattr(v, "memberships"):
                v = tuple(sorted(v.memberships))
            else:
                v = tuple(sorted(v))
            items.append((str(k), v))
        elif isinstance(v, float):
            items.append((str(k), repr(v)))
        else:
            items.append((str(k), str(v)))
    return (r.report_type.name, tuple(sorted(items)))
