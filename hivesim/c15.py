"""C15: the same freshly loaded scenario executed as split cranks / one crank / batch runner / step loop must coincide."""
import copy
import hashlib
import traceback

from . import seams, world
from .runner import Run, V, build_generators, derive_seed, stream, execute
from .profiles import make_plan
from .fingerprint import sim_fp, canon_report, digest
from .shrink import plan_size

from nrel.hive.app import hive_cosim
from nrel.hive.runner.local_simulation_runner import LocalSimulationRunner


class Rec:
    def __init__(self):
        self.fps = []
        self.events = []
        self.times = []

    def handle(self, reports, rp):
        self.fps.append(sim_fp(rp.s, drop_ids=True))
        self.events.append(sorted(canon_report(r) for r in reports))
        self.times.append(int(rp.s.sim_time))

    def close(self, rp):
        pass


class _Hist:
    def __init__(self, s):
        self._s = s

    def hexdigest(self):
        return self._s


class _R:
    pass


def run_shape(plan, shape, parts=None, lazy=False):
    seams.reseed_uuid(plan["seed"])
    d = world.materialise(plan["spec"])
    run = Run(plan, False)
    spy_log = []
    rp = None
    try:
        cfg = world.load_config(d, lazy=lazy)
        gens = build_generators(plan, cfg, run, spy_log) if plan["run"].get("generators") is not None else None
        rp = world.load(d, gens, lazy=lazy)
        rec = Rec()
        rp.e.reporter.add_handler(rec)
        n = plan["nsteps"]
        extra = {}
        if shape == "split":
            for a in parts:
                rp = hive_cosim.crank(rp, a).runner_payload
                if plan["run"].get("reinject") and gens is not None:
                    # a co-simulation user re-injects the (unchanged) generators between two calls: must be neutral
                    from nrel.hive.runner import runner_payload_ops as rpo
                    rp = rpo.set_instruction_generators(rp, tuple(rp.u.step_update.ordered_instruction_generators))
        elif shape == "whole":
            rp = hive_cosim.crank(rp, n).runner_payload
        elif shape == "run":
            with seams.quiet():
                rp = LocalSimulationRunner.run(rp)
        elif shape == "steps":
            guard = 0
            while True:
                nxt = LocalSimulationRunner.step(rp)
                if nxt is None:
                    break
                rp = nxt
                guard += 1
                if guard > n + 5:
                    extra["runaway"] = True
                    break
            # stepping a payload at or past the end: refuses and leaves everything unchanged
            before = (len(rec.fps), sim_fp(rp.s, drop_ids=False), len(rp.e.reporter.reports))
            again = LocalSimulationRunner.step(rp)
            after = (len(rec.fps), sim_fp(rp.s, drop_ids=False), len(rp.e.reporter.reports))
            extra["past_end"] = (again is None, before == after)
        run.rp = rp
        return {"fps": rec.fps, "events": rec.events, "times": rec.times, "final": int(rp.s.sim_time), "extra": extra}
    finally:
        if rp is not None:
            run.rp = rp
        from .runner import _close_files
        _close_files(run)
        world.cleanup(d)


def compare(plan):
    """all execution shapes of one plan; returns (violations, digest)"""
    out = []
    rs = plan["run"]
    n = plan["nsteps"]
    sim = plan["spec"]["sim"]
    start, end, dt = sim["start_time"], sim["end_time"], sim["timestep_duration_seconds"]
    parts = rs["parts"]
    lazy = bool(rs.get("lazy"))
    res = {}
    stopped = {}
    compare.last_stopped = None
    for shape, kw in (("split", dict(parts=parts, lazy=lazy)), ("whole", dict(lazy=(not lazy) if rs.get("flip_lazy") else lazy)),
                      ("run", dict(lazy=lazy)), ("steps", dict(lazy=lazy))):
        try:
            res[shape] = run_shape(plan, shape, **kw)
        except Exception as e:
            stopped[shape] = (type(e).__name__, str(e)[:300])
    if stopped:
        kinds = {t for t, _ in stopped.values()}
        if len(stopped) == 4 and len(kinds) == 1:
            # an exception escaping HIVE stops every execution shape alike: nothing to compare, the run is counted as aborted
            # (what stops it is not this property's business; stopping in some shapes only would be)
            compare.last_stopped = "all four execution shapes stopped with %s: %s" % next(iter(stopped.values()))
            return out, digest(("stopped", sorted(kinds)))
        shape, (t, msg) = sorted(stopped.items())[0]
        out.append(V("C15", "run_stopped", -1, f"{shape} stopped with {t}: {msg}; " + (f"completed: {sorted(res)}" if res else f"other shapes: {stopped}"),
                     key=f"C15/run_stopped/{t}"))
        return out, digest(("err", sorted(stopped)))
    A, B, C, D = res["split"], res["whole"], res["run"], res["steps"]
    n_expected = len(range(int(start), int(end), int(dt)))
    if n != n_expected:
        raise AssertionError("plan nsteps must equal len(range(start,end,step))")

    def first_diff(x, y):
        for k in range(max(len(x["fps"]), len(y["fps"]))):
            if k >= len(x["fps"]) or k >= len(y["fps"]):
                return k, "length"
            if x["fps"][k] != y["fps"][k]:
                return k, "state"
            if x["events"][k] != y["events"][k]:
                return k, "events"
        return None

    for (na, a), (nb, b), rule in ((("split", A), ("whole", B), "split_vs_whole"), (("whole", B), ("run", C), "crank_vs_run"),
                                    (("run", C), ("steps", D), "run_vs_steps")):
        d = first_diff(a, b)
        if d is not None:
            out.append(V("C15", rule, d[0], f"{na} (parts {parts if na == 'split' else ''}) and {nb} differ at step {d[0]} in {d[1]} "
                                              f"({len(a['fps'])} vs {len(b['fps'])} steps)", key=f"C15/{rule}"))
    for name, x in res.items():
        want = [start + dt * (k + 1) for k in range(len(x["times"]))]
        if x["times"] != want:
            k = next(i for i, (g, w) in enumerate(zip(x["times"], want)) if g != w) if len(x["times"]) == len(want) else -1
            out.append(V("C15", "clock", k, f"{name}: clock after step {k} is {x['times'][k] if k >= 0 else None}, expected {want[k] if k >= 0 else None}"))
    for name in ("run", "steps"):
        if len(res[name]["fps"]) != n_expected:
            out.append(V("C15", "step_count", len(res[name]["fps"]), f"{name} performed {len(res[name]['fps'])} steps for the interval [{start},{end}) with step {dt}: expected {n_expected}",
                         key=f"C15/step_count/{name}"))
    if (end - start) % dt == 0:
        for name in ("run", "steps", "whole", "split"):
            if res[name]["final"] != end:
                out.append(V("C15", "end_time", n, f"{name}: final clock {res[name]['final']} != configured end time {end}"))
    pe = D["extra"].get("past_end")
    if pe is not None and pe != (True, True):
        out.append(V("C15", "step_past_end", n, f"LocalSimulationRunner.step at the end time: returned None={pe[0]}, left everything unchanged={pe[1]}"))
    if D["extra"].get("runaway"):
        out.append(V("C15", "step_past_end", n, "the step loop did not stop at the end time"))
    h = digest((A["fps"], A["events"], B["fps"], C["fps"], D["fps"]))
    compare.last_states = sorted({int(f[:13], 16) for f in A["fps"]})
    compare.last_events = sum(len(e) for e in A["events"])
    return out, h


class C15Driver:
    name = "c15"
    prop = "C15"

    def budget(self, tier):
        return 450 if tier == "quick" else 10000

    def extra(self, tier, seed):
        return None

    def make(self, seed):
        plan = make_plan("C15", seed)
        r = stream(seed, "c15")
        sim = plan["spec"]["sim"]
        dt = sim["timestep_duration_seconds"]
        # sometimes the interval is not a whole number of steps
        if r.random() < 0.3:
            sim["end_time"] = sim["end_time"] + r.choice([1, max(1, dt // 2), dt - 1 if dt > 1 else 1])
        n = len(range(sim["start_time"], sim["end_time"], dt))
        plan["nsteps"] = n
        plan["spec"]["nsteps"] = n
        # a random split, including 0-step and 1-step calls
        cuts = sorted(r.sample(range(1, n), min(n - 1, r.randint(1, 4)))) if n > 1 else []
        parts = [b - a for a, b in zip([0] + cuts, cuts + [n])]
        if r.random() < 0.5:
            parts.insert(r.randint(0, len(parts)), 0)
        if r.random() < 0.3 and parts and parts[0] > 1:
            parts = [1, parts[0] - 1] + parts[1:]
        plan["run"]["parts"] = parts
        plan["run"]["flip_lazy"] = r.random() < 0.5
        plan["run"]["reinject"] = r.random() < 0.5
        return plan

    def run_one(self, seed, want_plan=False):
        plan = self.make(seed)
        gens = plan["run"].get("generators") or []
        aborted = None
        if any(g.startswith("adv") for g in gens):
            # pass 0: the adversary chooses its operations online (cranks of one step); afterwards it is a pure function of sim_time
            run0 = execute(plan, [], generate=True)
            aborted = run0.aborted
        compare.last_states, compare.last_events = [], 0
        vs, h = compare(plan)
        if getattr(compare, "last_stopped", None):
            aborted = aborted or compare.last_stopped
        n_events = compare.last_events
        res = {"seed": seed, "viol": [dict(v) for v in vs[:4]], "stats": {"crank_split": max(0, len(plan["run"]["parts"]) - 1),
                                                                            "lazy_io": int(bool(plan["run"].get("lazy")) or bool(plan["run"].get("flip_lazy"))),
                                                                            "unaligned_interval": int((plan["spec"]["sim"]["end_time"] - plan["spec"]["sim"]["start_time"]) % plan["spec"]["sim"]["timestep_duration_seconds"] != 0),
                                                                            "zero_step_call": int(0 in plan["run"]["parts"]), "generators_reinjected": int(bool(plan["run"].get("reinject"))), "stateful_functional_generator": int("ticker" in (plan["run"].get("generators") or [])), "steps": plan["nsteps"] * 4},
               "probes": {"events_compared": n_events}, "sigs": [], "abstract": list(compare.last_states), "steps": plan["nsteps"] * 4,
               "sim_s": plan["nsteps"] * 4 * plan["spec"]["sim"]["timestep_duration_seconds"],
               "nontrivial": len(plan["run"]["parts"]) >= 2 and plan["nsteps"] >= 2 and n_events > 0, "digest": h,
               "plan_digest": digest((plan["spec"], plan["run"], sorted(plan["ops"].items()))), "aborted": aborted, "size": plan_size(plan)}
        if want_plan:
            res["plan"] = plan
        return res

    def violations_of(self, plan):
        plan = copy.deepcopy(plan)
        sim = plan["spec"]["sim"]
        n = len(range(sim["start_time"], sim["end_time"], sim["timestep_duration_seconds"]))
        if plan.get("nsteps") != n:
            # the shrinker truncated the run: move the configured end time with it
            n = plan["nsteps"]
            sim["end_time"] = sim["start_time"] + n * sim["timestep_duration_seconds"]
            plan["spec"]["nsteps"] = n
        parts = [p for p in plan["run"]["parts"]]
        # re-fit the split to the (possibly truncated) length
        fitted, tot = [], 0
        for p in parts:
            p = min(p, n - tot)
            fitted.append(p)
            tot += p
        if tot < n:
            fitted.append(n - tot)
        plan["run"]["parts"] = fitted
        vs, h = compare(plan)
        r = _R()
        r.history = _Hist(h)
        return vs, r
