"""WorldSpec (pure JSON) -> real scenario directory -> RunnerPayload loaded by HIVE's own loader.

Everything here is harness code; the loader, initialisers, file readers and road networks it feeds are real.
"""
import csv
import json
import datetime as _dt
import math
import os
import shutil
import tempfile
from pathlib import Path

import h3
import yaml

from . import seams  # noqa: F401  (must be first: uuid seam)
from nrel.hive.config import HiveConfig
from nrel.hive.initialization.load import load_simulation

LAT0, LON0 = 39.7520, -104.9850  # downtown Denver
CENTER = h3.geo_to_h3(LAT0, LON0, 15)
EDGE_KM = {6: 3.2295, 7: 1.2206, 8: 0.4614, 9: 0.1744, 10: 0.0659, 11: 0.0249, 12: 0.0094, 13: 0.0036}
DENVER_JSON = "nrel/hive/resources/scenarios/denver_downtown/road_network/downtown_denver_network.json"
DENVER_BOX = (39.7430, 39.7640, -104.9990, -104.9730)
REPO = os.environ.get("HIVESIM_REPO", "/repo")

CHARGERS = [
    ["LEVEL_1", "electric", 3.3, "kilowatts"],
    ["LEVEL_2", "electric", 7.2, "kilowatts"],
    ["DCFC", "electric", 50, "kilowatts"],
    ["DC150", "electric", 150, "kilowatts"],
    ["DC20", "electric", 20, "kilowatts"],      # above the usual taper cut-off, below what the vehicles accept
    ["GAS_PUMP", "gasoline", 0.16, "gal_per_second"],
    ["GAS_SLOW", "gasoline", 0.002, "gal_per_second"],
]
ELECTRIC = ["LEVEL_1", "LEVEL_2", "DCFC", "DC150", "DC20"]
GASOLINE = ["GAS_PUMP", "GAS_SLOW"]
ENERGY_OF = {c[0]: c[1] for c in CHARGERS}


def secs_hms(t):
    t = int(t) % 86400
    return "%02d:%02d:%02d" % (t // 3600, (t % 3600) // 60, t % 60)


def hms_secs(s):
    h, m, x = s.split(":")
    return int(h) * 3600 + int(m) * 60 + int(x)


def offset_cell(dx_m, dy_m, lat0=LAT0, lon0=LON0):
    lat = lat0 + dy_m / 111320.0
    lon = lon0 + dx_m / (111320.0 * math.cos(math.radians(lat0)))
    return h3.geo_to_h3(lat, lon, 15)


def cell_latlon(c):
    la, lo = h3.h3_to_geo(c)
    return repr(la), repr(lo)


def pick(rng, prof, key, default):
    v = prof.get(key, default)
    if isinstance(v, tuple) and len(v) == 2 and all(isinstance(x, int) for x in v):
        return rng.randint(*v)
    if isinstance(v, list):
        return rng.choice(v)
    return v


# ---------------------------------------------------------------------------------------------------------
# street graphs
# ---------------------------------------------------------------------------------------------------------
def gen_graph(rng, extent_m):
    """grid or ring-and-spoke street graph around the centre, two-way and one-way streets, very short and very long links,
    slow and fast links; strongly connected by construction (one-way reversal is undone when it breaks connectivity)"""
    import networkx as nx

    g = nx.MultiDiGraph()
    coords = {}
    kind = rng.choice(["grid", "grid", "ring"])
    if kind == "grid":
        n = rng.choice([2, 3, 3, 4, 5])
        sp = max(6.0, extent_m / max(1, n - 1))
        for i in range(n):
            for j in range(n):
                coords[i * n + j] = (
                    (j - (n - 1) / 2) * sp + rng.uniform(-0.2, 0.2) * sp,
                    (i - (n - 1) / 2) * sp + rng.uniform(-0.2, 0.2) * sp,
                )
        pairs = []
        for i in range(n):
            for j in range(n):
                if j + 1 < n:
                    pairs.append((i * n + j, i * n + j + 1))
                if i + 1 < n:
                    pairs.append((i * n + j, (i + 1) * n + j))
    else:
        m = rng.choice([4, 5, 6, 8])
        coords[0] = (0.0, 0.0)
        r = max(10.0, extent_m / 2)
        for k in range(m):
            a = 2 * math.pi * k / m
            coords[k + 1] = (r * math.cos(a) * rng.uniform(0.8, 1.1), r * math.sin(a) * rng.uniform(0.8, 1.1))
        pairs = [(k + 1, (k + 1) % m + 1) for k in range(m)] + [(0, k + 1) for k in range(0, m, rng.choice([1, 2]))]
    # a stub with a very short link
    if rng.random() < 0.5:
        base = rng.choice(sorted(coords))
        nid = max(coords) + 1
        coords[nid] = (coords[base][0] + rng.uniform(3, 9), coords[base][1] + rng.uniform(3, 9))
        pairs.append((base, nid))
    cells = {}
    for nid, (dx, dy) in coords.items():
        c = offset_cell(dx, dy)
        la, lo = h3.h3_to_geo(c)
        cells[nid] = c
        g.add_node(int(nid), y=la, x=lo)
    if len(set(cells.values())) != len(cells):
        return gen_graph(rng, extent_m * 1.5 + 10)

    def gc_m(a, b):
        la1, lo1 = h3.h3_to_geo(cells[a])
        la2, lo2 = h3.h3_to_geo(cells[b])
        la1, lo1, la2, lo2 = map(math.radians, (la1, lo1, la2, lo2))
        d = math.sin((la2 - la1) / 2) ** 2 + math.cos(la1) * math.cos(la2) * math.sin((lo2 - lo1) / 2) ** 2
        return 2 * 6371000.0 * math.asin(math.sqrt(d))

    speeds = [8, 15, 25, 40, 40, 60, 110]
    for a, b in pairs:
        oneway = rng.random() < 0.2
        for u, v in ((a, b),) if oneway else ((a, b), (b, a)):
            g.add_edge(int(u), int(v), length=gc_m(u, v) * rng.uniform(1.0, 1.4), speed_kmph=rng.choice(speeds))
    # repair connectivity: add the reverse of every one-way edge until strongly connected
    if not nx.is_strongly_connected(g):
        for a, b in pairs:
            for u, v in ((a, b), (b, a)):
                if not g.has_edge(u, v):
                    g.add_edge(int(u), int(v), length=gc_m(u, v) * rng.uniform(1.0, 1.4), speed_kmph=rng.choice(speeds))
    data = nx.node_link_data(g, edges="edges")
    return data


_DENVER_CACHE = {}


def denver_graph():
    if "g" not in _DENVER_CACHE:
        with open(os.path.join(REPO, DENVER_JSON)) as f:
            d = json.load(f)
        if "links" in d and "edges" not in d:
            d["edges"] = d.pop("links")  # networkx >= 3.4 reads "edges"; the shipped file uses the old key
        _DENVER_CACHE["g"] = d
    return _DENVER_CACHE["g"]


# ---------------------------------------------------------------------------------------------------------
# world generation
# ---------------------------------------------------------------------------------------------------------
DEFAULT_PROFILE = {
    "nv": (1, 8),
    "ns": (0, 3),
    "nb": (0, 2),
    "nr": (0, 25),
    "nsteps": (20, 80),
    "steps": [60, 60, 30, 15, 120, 300, 7, 1, 900, 61],
    "network": ["haversine", "haversine", "graph"],
    "p_fleets": 0.0,
    "p_schedules": 0.0,
    "p_prices": 0.0,
    "p_rate": 0.5,
    "soc": [0.002, 0.01, 0.05, 0.2, 0.5, 0.9, 1.0],
    "mech": ["bev", "bev", "ice"],
    "plug_counts": [1, 1, 2, 3],
    "stalls": [1, 1, 2, 3],
    "pc_steps": [60, 60, 1, 15, 90],
    "starts": [0, 0, 3600 * 8, 86400 - 600, 1234, 3 * 86400 + 17 * 3600 + 13, 1577836800 + 23 * 3600 + 3000],  # last: 2020-01-01 real-date epoch
    "valid_plugs_only": False,
}


def gen_world(rng, profile=None):
    prof = dict(DEFAULT_PROFILE)
    prof.update(profile or {})
    step = pick(rng, prof, "steps", 60)
    start = pick(rng, prof, "starts", 0)
    nsteps = pick(rng, prof, "nsteps", 40)
    nv, ns, nb, nr = (pick(rng, prof, k, 1) for k in ("nv", "ns", "nb", "nr"))
    network = pick(rng, prof, "network", "haversine")
    extent_m = min(4000.0, max(40.0, 11.1 * step * rng.uniform(1.5, 10.0)))
    if "extent_m" in prof:
        e = float(pick(rng, prof, "extent_m", extent_m))
        extent_m = e if e > 0 else extent_m      # 0 = keep the extent tied to the step length

    # search resolution: so that small worlds cross search cells
    want = extent_m / 1000.0
    cands = [r for r in range(7, 13) if want / 10 <= EDGE_KM[r] <= want * 2] or [9]
    search_res = rng.choice(cands) if "search_res" not in prof else pick(rng, prof, "search_res", 9)
    radius_km = round(2 * EDGE_KM[search_res] * rng.choice([2, 4, 8]), 5)

    if network == "denver":
        la0, la1, lo0, lo1 = DENVER_BOX

        def rand_cell():
            return h3.geo_to_h3(rng.uniform(la0, la1), rng.uniform(lo0, lo1), 15)

        search_res = rng.choice([7, 8, 9])
        radius_km = round(2 * EDGE_KM[search_res] * 8, 5)
    else:

        def rand_cell():
            a = rng.uniform(0, 2 * math.pi)
            r = extent_m / 2 * math.sqrt(rng.random())
            return offset_cell(r * math.cos(a), r * math.sin(a))

    pool = [rand_cell() for _ in range(rng.choice([3, 5, 8]))]

    def cell():
        return rng.choice(pool) if rng.random() < 0.6 else rand_cell()

    mech = {
        "bev": {
            "mechatronics_type": "bev",
            "powercurve_file": "pc.yaml",
            "powertrain_file": "normalized-electric.yaml",
            "battery_capacity_kwh": rng.choice([20, 50, 75]),
            "nominal_max_charge_kw": rng.choice([50, 150]),
            "charge_taper_cutoff_kw": rng.choice([10, 10, 5, 60]),
            "nominal_watt_hour_per_mile": rng.choice([225, 300]),
            "idle_kwh_per_hour": rng.choice([0.8, 2.0]),
        },
        "ice": {
            "mechatronics_type": "ice",
            "tank_capacity_gallons": rng.choice([10, 14]),
            "idle_gallons_per_hour": rng.choice([0.2, 0.5]),
            "powertrain_file": "normalized-gasoline.yaml",
            "nominal_miles_per_gallon": rng.choice([30, 22]),
        },
    }
    # a quarter of the worlds ship their own powertrain tables: the shipped ones cut off at a city speed (a legal table; HIVE holds
    # the last value for faster links).  The shipped tables are still falling there, so any extrapolation shows.
    pt_cut = rng.choice([None, None, None, 20, 30])
    if pt_cut is not None:
        mech["bev"]["powertrain_file"] = "city-electric.yaml"
        mech["ice"]["powertrain_file"] = "city-gasoline.yaml"
    pc_step = pick(rng, prof, "pc_steps", 60)

    stations = []
    for i in range(ns):
        kinds = rng.sample(["LEVEL_2", "DCFC", "DC150", "GAS_PUMP", "LEVEL_1", "GAS_SLOW", "DC20"], rng.randint(1, 3))
        stations.append(
            {
                "id": f"s{i}",
                "cell": cell(),
                "plugs": [
                    {"charger": k, "count": pick(rng, prof, "plug_counts", 1), "on_shift": rng.random() < 0.8}
                    for k in kinds
                ],
            }
        )
        # the same plug type of a station listed on two rows of the stations file (two banks of plugs): the counts add up
        for p in stations[-1]["plugs"]:
            if p["count"] >= 2 and rng.random() < 0.4:
                a = rng.randint(1, p["count"] - 1)
                p["rows"] = [a, p["count"] - a]
                p["rows_apart"] = rng.random() < 0.5
    bases = []
    sids = [s["id"] for s in stations]
    for i in range(nb):
        st = rng.choice(sids + [None]) if sids else None
        c = cell()
        if st and rng.random() < 0.7:
            c = next(s["cell"] for s in stations if s["id"] == st)
        bases.append({"id": f"b{i}", "cell": c, "station": st, "stalls": pick(rng, prof, "stalls", 1)})

    ids = [f"v{i:02d}" for i in range(nv)]
    rng.shuffle(ids)
    vehicles = []
    for i in range(nv):
        vehicles.append(
            {
                "id": ids[i],
                "cell": cell(),
                "mech": pick(rng, prof, "mech", "bev"),
                "soc": pick(rng, prof, "soc", 0.5),
                "schedule": None,
                "home": None,
            }
        )

    # human drivers
    schedules = []
    if bases and rng.random() < prof["p_schedules"]:
        schedules = gen_schedules(rng, start, step, nsteps)
        for v in vehicles:
            if rng.random() < prof.get("p_human", 0.6):
                v["schedule"] = rng.choice(schedules)[0]
                v["home"] = rng.choice(bases)["id"]

    # fleets
    fleets = None
    if rng.random() < prof["p_fleets"]:
        names = rng.choice([["fa"], ["fa", "fb"], ["fa", "fb"], ["fa", "fb"], ["fa", "fb", "fc"], ["fa", "fb", "fc"]])
        fleets = {n: {"vehicles": [], "stations": [], "bases": []} for n in names}
        for v in vehicles:
            for n in rng.sample(names, min(len(names), rng.choice(prof.get("veh_fleet_counts", [0, 1, 1, 2])))):
                fleets[n]["vehicles"].append(v["id"])
        for s in stations:
            for n in rng.sample(names, min(len(names), rng.choice([0, 0, 1, 2]))):
                fleets[n]["stations"].append(s["id"])
        for b in bases:
            for n in rng.sample(names, min(len(names), rng.choice([0, 0, 1, 2]))):
                fleets[n]["bases"].append(b["id"])

    # requests: sorted, bursts, gaps, identical timestamps, before start, on and between boundaries
    reqs = []
    t = max(0, start - rng.choice([0, 0, 100, 5 * step]))
    for i in range(nr):
        t += rng.choice([0, 0, 1, 5, step - 1 if step > 1 else 1, step, step + 1, 3 * step, rng.randint(0, 4 * step)])
        o = cell()
        d = cell() if rng.random() < 0.9 else o
        r = {"id": f"r{i:03d}", "o": o, "d": d, "t": int(t), "pax": rng.choice([1, 2, 4])}
        if fleets:
            r["fleet"] = rng.choice(sorted(fleets))
        reqs.append(r)

    cancel = rng.choice(prof.get("cancel", [step, 2 * step, 5 * step - 1 if step > 1 else 5, 300, 600, 601, 1]))
    sim = {
        "sim_name": "w",
        "start_time": int(start),
        "end_time": int(start + nsteps * step),
        "timestep_duration_seconds": int(step),
        "request_cancel_time_seconds": int(max(1, cancel)),
        "sim_h3_search_resolution": int(search_res),
    }
    disp = {
        "max_search_radius_km": radius_km,
        "matching_range_km_threshold": rng.choice(prof.get("matching_thr", [0.0, 0.5, 5, 20])),
        "charging_range_km_threshold": rng.choice(prof.get("charging_thr", [1, 5, 20])),
        "charging_range_km_soft_threshold": rng.choice([5, 50]),
        "idle_time_out_seconds": rng.choice([2 * step, 10 * step, 1800]),
        "charging_search_type": rng.choice(prof.get("search_types", ["nearest_shortest_queue"] * 3 + ["shortest_time_to_charge"])),
        "ideal_fastcharge_soc_limit": rng.choice([0.8, 0.8, 0.5, 1.0]),
        "base_charging_range_km_threshold": rng.choice(prof.get("base_thr", [100, 100, 5, 0.5, 0])),
        "human_driver_off_shift_charge_target": rng.choice([1.0, 1.0, 0.6]),
    }
    speed_kmph = rng.choice(prof.get("speeds", [40.0, 40.0, 40.0, 25.0, 60.0, 13.7]))
    spec = {
        "network": {"kind": network, "default_speed_kmph": speed_kmph},
        "sim": sim,
        "dispatcher": disp,
        "mech": mech,
        "pc_step": pc_step,
        "stations": stations,
        "bases": bases,
        "vehicles": vehicles,
        "schedules": schedules,
        "fleets": fleets,
        "requests": reqs,
        "prices": None,
        "rate": rng.choice([[2.2, 1.6, 5], [1, 0, 1], [0.5, 3.0, 0]]) if rng.random() < prof["p_rate"] else None,
        "nsteps": nsteps,
        "file_layout": {"omit_driver_columns": rng.random() < 0.5, "no_station_word": rng.choice(["", "", "none", "None"])},
        "pt_cut": pt_cut,
        "pc_shape": rng.choice(prof.get("pc_shapes", ["shipped", "shipped", "shipped", "constant", "half_taper"])),
        "time_format": rng.choice(prof.get("time_formats", ["epoch", "epoch", "epoch", "iso", "iso", "iso_utc"])),
        "extent_m": extent_m,
    }
    if network == "graph":
        spec["network"]["graph"] = gen_graph(rng, extent_m)
    if stations and rng.random() < prof["p_prices"]:
        spec["prices"] = gen_prices(rng, spec, prof)
    return spec


def gen_schedules(rng, start, step, nsteps):
    end = start + nsteps * step
    out = [
        ["s_day", "09:00:00", "17:00:00"],
        ["s_wrap", "22:30:00", "02:15:00"],
        ["s_edge", secs_hms(start + 3 * step), secs_hms(start + 9 * step)],
        ["s_tiny", secs_hms(start + step + 1), secs_hms(start + step + 2)],
        ["s_all", "00:00:00", "23:59:59"],
    ]
    a = rng.randint(start, max(start, end - 1))
    b = rng.randint(start, max(start, end - 1))
    out.append(["s_rnd", secs_hms(a), secs_hms(b)])
    a = start + rng.randint(0, max(1, nsteps - 1)) * step
    out.append(["s_bnd", secs_hms(a), secs_hms(a + rng.randint(1, 6) * step)])
    if out[-1][1] == out[-1][2]:
        out.pop()
    return out


def gen_prices(rng, spec, prof):
    step = spec["sim"]["timestep_duration_seconds"]
    start = spec["sim"]["start_time"]
    stations = spec["stations"]
    by = rng.choice(prof.get("price_by", ["station_id", "station_id", "geoid"]))
    full = rng.random() < prof.get("p_price_full", 0.5)  # every batch names every station
    rows = []
    t = max(0, start - rng.choice([0, 100, step]))
    sres = spec["sim"]["sim_h3_search_resolution"]
    # a third of the tables also hold negative tariffs (the station pays the vehicle: legal, the loader takes any float) and tariffs of exactly 0
    odd = rng.random() < prof.get("p_price_odd", 0.33)

    def price():
        if odd and rng.random() < 0.35:
            return rng.choice([0.0, round(-rng.uniform(0.01, 0.5), 3)])
        return round(rng.uniform(0, 1), 3)

    for b in range(rng.randint(1, 6)):
        t += rng.choice([0, 1, step, 7 * step, rng.randint(0, 20 * step)]) if b else 0
        for s in stations:
            if not full and rng.random() < 0.4:
                continue
            if by == "geoid":
                res = rng.choice(prof.get("price_res", [sres - 1, sres, sres, sres + 1, sres + 2, 15]))
                res = max(0, min(15, res))
                key = h3.h3_to_parent(s["cell"], res)
            else:
                key = s["id"]
            for p in s["plugs"]:
                if full or rng.random() < 0.8:
                    rows.append([int(t), key, p["charger"], price()])
    rows.sort(key=lambda r: r[0])
    return {"by": by, "rows": rows}


# ---------------------------------------------------------------------------------------------------------
# materialise + load
# ---------------------------------------------------------------------------------------------------------
_PC_CACHE = {}


def _powercurve_yaml(pc_step, shape="shipped"):
    """the shipped normalised curve (tapers to ~0 at 100 %), or a legal curve of another shape: constant power up to full, or a
    taper that stops at half power"""
    if "d" not in _PC_CACHE:
        with open(os.path.join(REPO, "nrel/hive/resources/powercurve/normalized.yaml")) as f:
            _PC_CACHE["d"] = yaml.safe_load(f)
    d = dict(_PC_CACHE["d"])
    d["step_size_seconds"] = pc_step
    if shape != "shipped":
        pm = [dict(x) for x in d["power_curve"]]
        top = max(float(x["power_kw"]) for x in pm)
        for x in pm:
            if shape == "constant":
                x["power_kw"] = top
            elif shape == "half_taper":
                x["power_kw"] = max(float(x["power_kw"]), 0.5 * top)
        d["power_curve"] = pm
    return d


def scratch_root():
    root = os.environ.get("HIVESIM_TMP") or os.path.join(tempfile.gettempdir(), "hivesim_%d" % os.getuid())
    os.makedirs(root, exist_ok=True)
    return root


def materialise(spec, root=None):
    d = Path(tempfile.mkdtemp(prefix="w_", dir=root or scratch_root()))
    for sub in ("vehicles", "requests", "stations", "bases", "chargers", "mechatronics", "service_prices",
                "charging_prices", "fleets", "schedules", "road_network", "powercurve"):
        (d / sub).mkdir()

    def w(p, header, rows):
        with open(p, "w", newline="") as f:
            wr = csv.writer(f)
            wr.writerow(header)
            wr.writerows(rows)

    layout = spec.get("file_layout") or {}
    if layout.get("omit_driver_columns") and not any(v.get("schedule") or v.get("home") for v in spec["vehicles"]):
        # the optional driver columns left out altogether (autonomous vehicles only)
        w(d / "vehicles/v.csv", ["vehicle_id", "lat", "lon", "mechatronics_id", "initial_soc"],
          [[v["id"], *cell_latlon(v["cell"]), v["mech"], repr(v["soc"])] for v in spec["vehicles"]])
    else:
        w(d / "vehicles/v.csv", ["vehicle_id", "lat", "lon", "mechatronics_id", "initial_soc", "schedule_id", "home_base_id"],
          [[v["id"], *cell_latlon(v["cell"]), v["mech"], repr(v["soc"]), v.get("schedule") or "", v.get("home") or ""]
           for v in spec["vehicles"]])
    hdr = ["request_id", "o_lat", "o_lon", "d_lat", "d_lon", "departure_time", "passengers"]
    tf = spec.get("time_format") or "epoch"

    def ft(t):
        """times in the input files: epoch seconds or ISO 8601 (HIVE reads both; an offset of +00:00 changes nothing)"""
        if tf == "epoch":
            return t
        iso = _dt.datetime.utcfromtimestamp(int(t)).isoformat()
        return iso + "+00:00" if tf == "iso_utc" else iso

    if spec.get("fleets"):
        hdr.append("fleet_id")
        rows = [[r["id"], *cell_latlon(r["o"]), *cell_latlon(r["d"]), ft(r["t"]), r["pax"], r.get("fleet", "")] for r in spec["requests"]]
    else:
        rows = [[r["id"], *cell_latlon(r["o"]), *cell_latlon(r["d"]), ft(r["t"]), r["pax"]] for r in spec["requests"]]
    w(d / "requests/r.csv", hdr, rows)
    srows, late = [], []
    for s in spec["stations"]:
        for p in s["plugs"]:
            counts = p.get("rows") or [p["count"]]
            for j, c in enumerate(counts):
                row = [s["id"], *cell_latlon(s["cell"]), c, p["charger"], "true" if p["on_shift"] else "false"]
                (late if j > 0 and p.get("rows_apart") else srows).append(row)
    w(d / "stations/s.csv", ["station_id", "lat", "lon", "charger_count", "charger_id", "on_shift_access"], srows + late)
    w(d / "bases/b.csv", ["base_id", "lat", "lon", "station_id", "stall_count"],
      [[b["id"], *cell_latlon(b["cell"]), b["station"] or (layout.get("no_station_word") or ""), b["stalls"]] for b in spec["bases"]])
    w(d / "chargers/c.csv", ["charger_id", "energy_type", "rate", "units"], spec.get("chargers") or CHARGERS)
    with open(d / "mechatronics/m.yaml", "w") as f:
        yaml.safe_dump(spec["mech"], f)
    with open(d / "powercurve/pc.yaml", "w") as f:
        yaml.safe_dump(_powercurve_yaml(spec.get("pc_step", 60), spec.get("pc_shape") or "shipped"), f)
    if spec.get("pt_cut") is not None:
        os.makedirs(d / "powertrain", exist_ok=True)
        for src, dst in (("normalized-electric.yaml", "city-electric.yaml"), ("normalized-gasoline.yaml", "city-gasoline.yaml")):
            with open(os.path.join(REPO, "nrel/hive/resources/powertrain", src)) as f:
                pt = yaml.safe_load(f)
            pt["consumption_model"] = [r for r in pt["consumption_model"] if float(r["speed"]) <= spec["pt_cut"]]
            pt["name"] = dst[:-5]
            with open(d / "powertrain" / dst, "w") as f:
                yaml.safe_dump(pt, f)
    inp = {"vehicles_file": "v.csv", "requests_file": "r.csv", "stations_file": "s.csv", "bases_file": "b.csv",
           "chargers_file": "c.csv", "mechatronics_file": "m.yaml"}
    if spec.get("rate"):
        w(d / "service_prices/rate.csv", ["base_price", "price_per_mile", "minimum_price"], [spec["rate"]])
        inp["rate_structure_file"] = "rate.csv"
    if spec.get("prices"):
        pr = spec["prices"]
        w(d / "charging_prices/p.csv", ["time", pr["by"], "charger_id", "price_kwh"], [[ft(r[0]), *r[1:]] for r in pr["rows"]])
        inp["charging_price_file"] = "p.csv"
    if spec.get("schedules"):
        w(d / "schedules/sch.csv", ["schedule_id", "start_time", "end_time"], spec["schedules"])
        inp["schedules_file"] = "sch.csv"
    if spec.get("fleets"):
        with open(d / "fleets/f.yaml", "w") as f:
            yaml.safe_dump(spec["fleets"], f)
        inp["fleets_file"] = "f.yaml"
    kind = spec["network"]["kind"]
    net = {"network_type": "euclidean" if kind == "haversine" else "osm_network"}
    if spec["network"].get("default_speed_kmph"):
        net["default_speed_kmph"] = float(spec["network"]["default_speed_kmph"])
    if kind == "graph":
        with open(d / "road_network/g.json", "w") as f:
            json.dump(spec["network"]["graph"], f)
        inp["road_network_file"] = "g.json"
    elif kind == "denver":
        with open(d / "road_network/g.json", "w") as f:
            json.dump(denver_graph(), f)
        inp["road_network_file"] = "g.json"
    sim_y = dict(spec["sim"])
    if tf != "epoch":
        sim_y["start_time"], sim_y["end_time"] = str(ft(sim_y["start_time"])), str(ft(sim_y["end_time"]))
    y = {"sim": sim_y, "network": net, "input": inp, "dispatcher": spec.get("dispatcher", {})}
    with open(d / "scenario.yaml", "w") as f:
        yaml.safe_dump(y, f)
    return d


_GLOBAL_OFF = dict(log_run=False, log_states=False, log_events=False, log_kepler=False, log_stats=False,
                   log_station_capacities=False, log_instructions=False, log_time_step_stats=False,
                   log_fleet_time_step_stats=False, verbose=False, local_parallelism=1, log_level="CRITICAL")


def load_config(d, lazy=False, log_events=False, out_name="out"):
    d = Path(d)
    with open(d / "scenario.yaml") as f:
        y = yaml.safe_load(f)
    cfg = HiveConfig.build(d / "scenario.yaml", y, out_name)
    if isinstance(cfg, Exception):
        raise cfg
    g = cfg.global_config._replace(output_base_directory=str(d), lazy_file_reading=bool(lazy), wkt_x_y_ordering=True, **_GLOBAL_OFF)
    if log_events:
        g = g._replace(log_events=True, log_stats=True)
    return cfg._replace(global_config=g, scenario_output_directory=d / ("w_" + out_name))


def load(d, gens=None, lazy=False, log_events=False, out_name="out"):
    """gens: None -> HIVE's own default generators; a tuple -> custom_instruction_generators"""
    cfg = load_config(d, lazy=lazy, log_events=log_events, out_name=out_name)
    rp = load_simulation(cfg, gens)
    return rp


def cleanup(d):
    shutil.rmtree(d, ignore_errors=True)
