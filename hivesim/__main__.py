import os
import sys

# every process of the framework runs under a pinned string-hash seed (C01 workers set their own, explicitly)
if os.environ.get("PYTHONHASHSEED") is None or (os.environ.get("PYTHONHASHSEED") != "0" and os.environ.get("HIVESIM_KEEP_HASHSEED") != "1"):
    os.environ["PYTHONHASHSEED"] = "0"
    os.execv(sys.executable, [sys.executable, "-m", "hivesim"] + sys.argv[1:])

from hivesim.cli import main  # noqa: E402

sys.exit(main(sys.argv[1:]))
