"""Per-property profiles: how worlds, controllers and faults are drawn (swarm style: every run draws its own subset of
instruction kinds, fault kinds, generators and sizes) and which oracles are armed."""
import os
from .runner import stream
from .world import gen_world
from .adversary import KINDS

ALL_KINDS = list(KINDS)


def _oracles(prop, plan):
    from .oracles import state, ledger, motion, instr, timed, dispatch, persist, eventlog
    rs = plan["run"]
    bug = rs.get("buggify")
    if prop == "C02":
        return [state.C02()] + ([] if bug else [instr.Enumerate("C02", every=9, offset=4)])
    if prop == "C03":
        return [ledger.C03()]
    if prop == "C04":
        return [ledger.C04()]
    if prop == "C05":
        return [ledger.C05()]
    if prop == "C06":
        return [motion.C06()]
    if prop == "C07":
        return [state.C07(), instr.Enumerate("C07", every=9, offset=2)]
    if prop == "C08":
        return [state.C08()]
    if prop == "C09":
        return [instr.Enumerate("C09", every=rs.get("enum_every", 7), offset=3), instr.C09Precedence()]
    if prop == "C10":
        return [state.C10(), instr.Enumerate("C10", every=9, offset=5)]
    if prop == "C11":
        return [timed.C11()]
    if prop == "C12":
        return [dispatch.C12()]
    if prop == "C16":
        return [persist.C16()]
    if prop == "C17":
        return [state.C17()] + ([] if bug else [instr.Enumerate("C17", every=9, offset=1)])
    if prop == "C18":
        return [ledger.C18()]
    if prop == "C19":
        return [eventlog.C19()]
    if prop == "C20":
        return [timed.C20()]
    raise KeyError(prop)


WORLD = {
    "C02": dict(p_schedules=0.25, nv=(2, 8), ns=(1, 3), nb=(1, 2), nr=(0, 15), plug_counts=[1, 1, 2], stalls=[1, 1, 2], p_fleets=0.2,
                soc=[0.01, 0.05, 0.2, 0.5, 0.9, 1.0], steps=[60, 60, 30, 120, 300, 15]),
    "C03": dict(p_schedules=0.25, nv=(1, 8), ns=(0, 2), nb=(0, 2), nr=(5, 30), p_rate=0.8, soc=[0.003, 0.02, 0.2, 0.5, 0.9],
                steps=[60, 60, 30, 15, 120, 300, 7]),
    "C04": dict(p_schedules=0.25, nv=(1, 6), ns=(1, 3), nb=(1, 2), nr=(0, 12), steps=[60, 30, 15, 120, 300, 7, 1, 61, 900, 45],
                soc=[0.002, 0.01, 0.05, 0.2, 0.5, 0.9, 0.99, 1.0], pc_steps=[60, 60, 1, 15, 90]),
    "C05": dict(p_schedules=0.25, nv=(1, 6), ns=(1, 3), nb=(1, 2), nr=(3, 20), p_prices=0.8, p_rate=1.0, soc=[0.02, 0.1, 0.3, 0.6],
                steps=[60, 60, 120, 300, 30, 45]),
    "C06": dict(nv=(1, 5), ns=(1, 3), nb=(1, 2), nr=(3, 20), network=["graph", "graph", "graph", "haversine", "haversine", "denver"],
                steps=[1, 5, 7, 15, 30, 60, 60, 120, 300, 900], soc=[0.5, 0.9, 1.0, 1.0, 0.05], nsteps=(20, 60),
                extent_m=[0, 0, 0, 0, 4000, 2500]),   # sometimes legs of hundreds of steps (a step that covers a tiny fraction of a link)
    "C07": dict(p_schedules=0.25, nv=(1, 6), ns=(1, 3), nb=(1, 3), nr=(2, 15), network=["haversine", "haversine", "graph"], p_fleets=0.15,
                soc=[0.05, 0.3, 0.6, 1.0]),
    "C08": dict(nv=(1, 8), ns=(0, 3), nb=(0, 2), nr=(0, 25), p_fleets=0.1),
    "C09": dict(nv=(2, 5), ns=(1, 2), nb=(1, 2), nr=(2, 10), nsteps=(15, 40), p_fleets=0.3, p_schedules=0.3,
                steps=[60, 60, 30, 120, 300], plug_counts=[1, 1, 2], stalls=[1, 1, 2], network=["haversine", "haversine", "haversine", "graph"]),
    "C10": dict(nv=(2, 8), ns=(1, 3), nb=(1, 3), nr=(5, 25), p_fleets=0.8, p_schedules=0.6, soc=[0.05, 0.1, 0.3, 0.9],
                steps=[60, 60, 30, 120]),
    "C11": dict(nv=(0, 4), ns=(1, 3), nb=(1, 2), nr=(5, 40), nsteps=(30, 120), p_prices=0.8, p_price_full=0.4,
                steps=[1, 7, 30, 60, 60, 61, 300, 900], p_fleets=0.15),
    "C12": dict(nv=(2, 12), ns=(0, 2), nb=(0, 2), nr=(5, 40), p_fleets=0.5, p_schedules=0.4, soc=[0.02, 0.1, 0.3, 0.9, 1.0],
                steps=[60, 60, 30, 120], nsteps=(20, 60), matching_thr=[0.0, 0.5, 5, 20], veh_fleet_counts=[0, 1, 1, 2, 2]),
    "C16": dict(nv=(1, 6), ns=(0, 3), nb=(0, 2), nr=(0, 20), nsteps=(15, 50), p_fleets=0.2, p_schedules=0.2,
                network=["haversine", "haversine", "graph"]),
    "C17": dict(p_schedules=0.25, nv=(1, 8), ns=(0, 2), nb=(0, 1), nr=(4, 25), soc=[0.002, 0.004, 0.01, 0.05, 0.3, 0.9], p_fleets=0.15,
                steps=[60, 60, 30, 15, 120]),
    "C18": dict(p_schedules=0.25, nv=(4, 10), ns=(1, 2), nb=(0, 1), nr=(0, 6), plug_counts=[1, 1, 2, 2, 3], soc=[0.02, 0.05, 0.1, 0.15],
                mech=["bev", "bev", "bev", "ice"], steps=[60, 60, 30, 120, 300], nsteps=(30, 90), charging_thr=[20, 50],
                extent_m=[300, 800, 1500]),
    "C19": dict(p_schedules=0.25, nv=(1, 6), ns=(1, 3), nb=(1, 2), nr=(5, 30), p_prices=0.5, p_rate=1.0, soc=[0.02, 0.1, 0.3, 0.6],
                steps=[60, 60, 120, 300, 30, 45, 7], starts=[0, 86400 - 600, 86400 - 1800, 1234, 3600 * 8, 1577836800 + 86400 - 900]),
    "C20": dict(nv=(1, 6), ns=(0, 2), nb=(1, 2), nr=(0, 30), p_schedules=1.0, p_human=0.8, nsteps=(60, 300), p_fleets=0.35,
                steps=[900, 900, 600, 300, 61, 7, 120], starts=[0, 3600 * 8, 86400 - 600, 1234, 17 * 3600 + 13, 2 * 86400 + 23 * 3600, 1577836800 + 5 * 3600 + 1200, 1583020800 + 22 * 3600]),
}
WORLD["C15"] = dict(nv=(0, 5), ns=(0, 3), nb=(0, 2), nr=(3, 30), nsteps=(8, 40), p_prices=0.5, p_price_full=1.0, p_schedules=0.3,
                    p_fleets=0.2, steps=[1, 7, 30, 60, 60, 61, 300, 900])
WORLD["C01"] = dict(nv=(3, 10), ns=(2, 4), nb=(1, 3), nr=(5, 40), nsteps=(40, 160), steps=[60, 60, 30, 120],
                    p_fleets=0.6, p_schedules=0.4, soc=[0.05, 0.1, 0.2, 0.5], mech=["bev", "bev", "bev", "ice"],
                    network=["haversine", "haversine", "graph"], veh_fleet_counts=[1, 2, 2, 3], charging_thr=[20], matching_thr=[0.5, 1])


def make_plan(prop, seed):
    """the world and the run-level switches of one run (no operations yet: those are chosen online)"""
    wr = stream(seed, "world")
    prof = WORLD[prop]
    if prop == "C16" and stream(seed, "variant").random() < 0.35:
        # a charging-heavy world (busy plugs, queues, low batteries) in which the built-in charging manager has rankings to compute:
        # that is where memo tables and other state outside the SimulationState would live
        prof = dict(WORLD["C18"], nsteps=(15, 45), ns=(2, 3), search_types=["shortest_time_to_charge"] * 4 + ["nearest_shortest_queue"])
    spec = gen_world(wr, prof)
    r = stream(seed, "run")
    rs = {"generators": None, "lazy": False, "log_events": False, "buggify": False, "recorder": False, "p_ext": 0.0}
    adv = {"p_instr": r.choice([0.1, 0.3, 0.6]), "p_hostile": r.choice([0.1, 0.3, 0.6]), "p_oos": 0.3}
    # swarm: a random subset of instruction kinds
    if r.random() < 0.5:
        kinds = [k for k in ALL_KINDS if r.random() < 0.6] or ["Idle"]
        adv["kinds"] = kinds
    builtin = ["Dispatcher", "ChargingFleetManager"]
    mix = r.choice(["adv", "both", "both", "builtin"])

    if prop == "C02":
        rs["buggify"] = r.random() < 0.5
        rs["p_ext"] = r.choice([0.0, 0.1])
        rs["ext_kinds"] = ["set_rate", "scale_rate"]
        mix = r.choice(["adv", "both"])
    elif prop == "C03":
        rs["lazy"] = r.random() < 0.3
        if r.random() < 0.3:
            # the built-in dispatcher may then re-dispatch vehicles that are already on their way
            spec["dispatcher"]["valid_dispatch_states"] = r.choice([["idle", "repositioning", "dispatchtrip"], ["idle", "repositioning", "dispatchbase", "reservebase"]])
        adv["p_double"] = 0.5
        if r.random() < 0.5:
            adv["kinds"] = ["DispatchTrip", "DispatchTrip", "Idle", "Reposition", "OutOfService", "DispatchStation", "DispatchBase", "ChargeStation", "ReserveBase"]
    elif prop == "C04":
        rs["p_ext"] = r.choice([0.0, 0.2])
        rs["ext_kinds"] = ["set_rate", "scale_rate"]
        mix = r.choice(["adv", "both", "both"])
        spec["dispatcher"]["charging_range_km_threshold"] = r.choice([5, 20, 50])
    elif prop == "C05":
        rs["p_ext"] = r.choice([0.0, 0.3])
        mix = r.choice(["both", "both", "adv"])
        adv["kinds"] = r.choice([None, ["ChargeStation", "ChargeBase", "DispatchStation", "Idle", "DispatchTrip", "ReserveBase", "DispatchBase"]]) or adv.get("kinds")
        spec["dispatcher"]["charging_range_km_threshold"] = r.choice([20, 50])
    elif prop == "C06":
        rs["recorder"] = True
        adv["p_instr"] = r.choice([0.05, 0.2])
        adv["p_hostile"] = 0.05
        adv["p_oos"] = 0.05
        adv["valid_plugs_only"] = True
        mix = "both"
    elif prop == "C07":
        adv["p_hostile"] = r.choice([0.3, 0.6, 0.9])
        mix = r.choice(["adv", "adv", "both"])
    elif prop == "C08":
        rs["buggify"] = r.random() < 0.5
    elif prop == "C09":
        mix = r.choice(["adv2", "adv3", "both2", "both2", "both"])
        rs["enum_faults"] = r.random() < 0.5
    elif prop == "C10":
        mix = r.choice(["adv", "both", "both", "builtin"])
        adv["p_hostile"] = r.choice([0.3, 0.6])
    elif prop == "C11":
        rs["lazy"] = r.random() < 0.5
        mix = r.choice(["default", "default", "builtin", "none"])
    elif prop == "C12":
        rs["p_add_request"] = r.choice([0.0, 0.15, 0.3])   # requests inserted through the co-simulation API, also at clock zero
        adv["p_instr"] = r.choice([0.0, 0.05, 0.2])
        mix = "both"
        if r.random() < 0.3:
            spec["dispatcher"]["valid_dispatch_states"] = r.choice([["idle", "repositioning", "reservebase"], ["idle"], ["idle", "repositioning", "dispatchbase"],
                                                              ["idle", "repositioning", "reservebase", "chargingbase"], ["idle", "chargingbase", "chargingstation"]])
            if "chargingbase" in spec["dispatcher"]["valid_dispatch_states"] and r.random() < 0.6:
                # "leave the base charger at any level": the base threshold below the matching threshold, so that the two range
                # tests of the eligibility rule disagree for a vehicle charging at a base
                spec["dispatcher"]["base_charging_range_km_threshold"] = r.choice([0, 0.5])
                spec["dispatcher"]["matching_range_km_threshold"] = r.choice([5, 20, 50])
                adv["kinds"] = ["ChargeBase", "ChargeBase", "ReserveBase", "DispatchBase", "Idle", "DispatchTrip"]
                adv["p_instr"] = r.choice([0.2, 0.4])
    elif prop == "C16":
        if prof is not WORLD[prop]:
            mix = r.choice(["both", "builtin"])
            adv["valid_plugs_only"] = True
            adv["kinds"] = ["DispatchStation", "DispatchStation", "Idle", "ChargeStation", "Reposition"]
        rs["step_recorder"] = True
        rs["buggify"] = r.random() < 0.4
        rs["p_ext"] = r.choice([0.0, 0.1])
    elif prop == "C17":
        rs["p_add_request"] = r.choice([0.0, 0.15, 0.3])
        rs["p_public_request"] = r.choice([0.0, 0.3])   # under fleets, some inserted requests carry no fleet (open to every fleet)
        if r.random() < 0.3:
            spec["dispatcher"]["valid_dispatch_states"] = r.choice([["idle", "repositioning", "dispatchtrip"], ["idle", "repositioning", "dispatchtrip", "dispatchbase"]])
        adv["p_double"] = 0.5
        rs["buggify"] = r.random() < 0.25
        mix = r.choice(["builtin", "adv", "both", "both"])
        if r.random() < 0.6:
            adv["kinds"] = ["DispatchTrip", "DispatchTrip", "DispatchTrip", "Idle", "Reposition", "OutOfService", "DispatchStation", "DispatchBase"]
    elif prop == "C18":
        rs["p_ext"] = r.choice([0.0, 0.15])
        rs["ext_kinds"] = ["set_rate", "scale_rate"]
        adv["valid_plugs_only"] = True
        adv["p_hostile"] = 0.0
        adv["p_instr"] = r.choice([0.05, 0.15, 0.3])
        adv["kinds"] = ["DispatchStation", "DispatchStation", "Idle", "ChargeStation", "Reposition"]
        adv["p_wave"] = r.choice([0.0, 0.1, 0.25])
        mix = r.choice(["both", "both", "adv"])
    elif prop == "C19":
        rs["log_events"] = True
        rs["lazy"] = r.random() < 0.3
        rs["p_ext"] = r.choice([0.0, 0.2])
        mix = r.choice(["both", "both", "builtin"])
    elif prop == "C20":
        mix = "builtin"
        if r.random() < 0.4:
            # parked and charging-at-home vehicles dispatchable (as in the shipped manhattan scenario): an off-shift driver at home
            # issues no instruction of its own that would mask what the dispatcher decides
            spec["dispatcher"]["valid_dispatch_states"] = r.choice([["idle", "repositioning", "reservebase", "chargingbase"],
                                                                     ["idle", "repositioning", "reservebase"],
                                                                     ["idle", "repositioning", "reservebase", "chargingbase", "dispatchbase"]])
    elif prop == "C15":
        mix = r.choice(["default", "builtin", "builtin", "both", "both"])
        rs["lazy"] = r.random() < 0.5
    elif prop == "C01":
        mix = r.choice(["builtin", "builtin", "both"])
        adv["p_instr"] = 0.1

    if prop not in ("C01", "C15", "C20") and "valid_dispatch_states" not in spec["dispatcher"] and r.random() < 0.15:
        # any activity name is a legal entry: the dispatcher may then try to send vehicles that are charging, queueing, parked,
        # already on their way, carrying passengers or out of service (what happens to such an instruction is what is checked)
        spec["dispatcher"]["valid_dispatch_states"] = r.choice([
            ["idle", "repositioning", "servicingtrip", "dispatchtrip"],
            ["idle", "chargingstation", "chargequeueing", "reservebase", "chargingbase", "dispatchstation", "dispatchbase"],
            ["idle", "repositioning", "outofservice", "servicingtrip"],
            ["idle", "repositioning", "reservebase", "chargingbase"],
            ["repositioning"],
        ])
    if prop in ("C02", "C07", "C08", "C10", "C16") and r.random() < 0.4:
        rs["p_add_request"] = 0.1   # a co-simulation user also inserts requests through the API (state-based oracles only)
    if mix == "adv":
        rs["generators"] = ["adv0"]
    elif mix == "both":
        rs["generators"] = builtin + ["adv0"] if r.random() < 0.7 else ["adv0"] + builtin
    elif mix == "builtin":
        rs["generators"] = list(builtin)
    elif mix == "adv2":
        rs["generators"] = ["adv0", "adv1"]
    elif mix == "adv3":
        rs["generators"] = ["adv0", "adv1", "adv2"]
    elif mix == "both2":
        rs["generators"] = r.choice([builtin + ["adv0", "adv1"], ["adv0"] + builtin + ["adv1"]])
    elif mix == "none":
        rs["generators"] = []
    elif mix == "default":
        rs["generators"] = None
    if prop == "C16" and prof is not WORLD[prop] and r.random() < 0.7:
        # a user-written manager built on HIVE's station-ranking helper goes first, so that it ranks from a fresh start in every step
        rs["generators"] = ["ranker"] + [g for g in rs["generators"] if g != "ChargingFleetManager" or r.random() < 0.5]
    if prop == "C15" and rs["generators"] is not None and r.random() < 0.6:
        # a stateful generator in HIVE's own functional style (state carried in the returned generator)
        rs["generators"] = rs["generators"] + ["ticker"]
        rs["ticker_period"] = r.choice([1, 2, 3])
    rs["adv"] = adv
    return {"version": 1, "property": prop, "seed": seed, "spec": spec, "run": rs, "ops": {}, "nsteps": spec["nsteps"]}


def oracles_for(prop, plan):
    return _oracles(prop, plan)
