"""The scripted adversary (a real InstructionGenerator) and the spy around HIVE's built-in generators.

While *generating*, the adversary looks at the state it is handed, draws from its own PRNG stream and appends the concrete
operations it chose to the plan (keyed by the step's start time).  While *replaying* -- or when asked again for a time it has
already generated (C16 re-stepping, C15 split runs, C01 other interpreters) -- it returns exactly the recorded operations
and no PRNG is consulted: it is a pure function of ``sim_time``.
"""
from . import seams  # noqa: F401
from nrel.hive.dispatcher.instruction.instructions import (
    ChargeBaseInstruction,
    ChargeStationInstruction,
    DispatchBaseInstruction,
    DispatchStationInstruction,
    DispatchTripInstruction,
    IdleInstruction,
    OutOfServiceInstruction,
    RepositionInstruction,
    ReserveBaseInstruction,
)
from nrel.hive.dispatcher.instruction_generator.instruction_generator import InstructionGenerator

from .world import ENERGY_OF

KINDS = {
    "Idle": (IdleInstruction, ()),
    "OutOfService": (OutOfServiceInstruction, ()),
    "DispatchTrip": (DispatchTripInstruction, ("request_id",)),
    "DispatchStation": (DispatchStationInstruction, ("station_id", "charger_id")),
    "ChargeStation": (ChargeStationInstruction, ("station_id", "charger_id")),
    "ChargeBase": (ChargeBaseInstruction, ("base_id", "charger_id")),
    "DispatchBase": (DispatchBaseInstruction, ("base_id",)),
    "ReserveBase": (ReserveBaseInstruction, ("base_id",)),
    "Reposition": (RepositionInstruction, ("destination",)),
}
KIND_OF_CLASS = {cls.__name__: k for k, (cls, _) in KINDS.items()}

TRAVEL = ("DispatchTrip", "ServicingTrip", "DispatchStation", "DispatchBase", "Repositioning")


def act(v):
    return type(v.vehicle_state).__name__


def build_instruction(op):
    cls, fields = KINDS[op["i"]]
    return cls(op["v"], *[op["a"][f] for f in fields])


def instruction_to_op(ins, g=None):
    kind = KIND_OF_CLASS[type(ins).__name__]
    _, fields = KINDS[kind]
    op = {"k": "instr", "i": kind, "v": ins.vehicle_id, "a": {f: getattr(ins, f) for f in fields}}
    if g is not None:
        op["g"] = g
    return op


class Adversary(InstructionGenerator):
    """not a frozen dataclass on purpose: holds the PRNG and the plan (harness side, mutable)"""

    def __init__(self, index, plan, rng=None, params=None, cells=None):
        self.index = index
        self.plan = plan
        self.rng = rng  # None -> pure replay
        self.params = params or {}
        self.cells = cells or []
        self.done = set()
        self.calls = 0

    @property
    def name(self):
        return "Adversary%d" % self.index

    # -- generation ------------------------------------------------------------------------------------
    def _choose(self, sim, env):
        rng = self.rng
        p = self.params
        p_instr = p.get("p_instr", 0.3)
        p_hostile = p.get("p_hostile", 0.3)
        kinds = p.get("kinds") or list(KINDS)
        out = []
        vids = sorted(sim.vehicles)
        sids = sorted(sim.stations)
        bids = sorted(sim.bases)
        rids = sorted(sim.requests)
        chargers = sorted(env.chargers)
        for vid in vids:
            v = sim.vehicles[vid]
            a = act(v)
            pi = p_instr
            # bias: interfere with vehicles that carry in-flight state
            if a in ("ServicingTrip", "DispatchTrip", "ChargeQueueing", "ChargingStation", "ChargingBase"):
                pi = min(1.0, p_instr * p.get("busy_bias", 1.5))
            if rng.random() > pi:
                continue
            kind = rng.choice(kinds)
            hostile = rng.random() < p_hostile
            mech = env.mechatronics.get(v.mechatronics_id)

            def near(ids, coll):
                if not ids:
                    return None
                if hostile or rng.random() < 0.4:
                    return rng.choice(ids)
                co = [i for i in ids if coll[i].geoid == v.geoid]
                return rng.choice(co) if co else rng.choice(ids)

            def plug_for(station):
                cs = sorted(station.state) if station is not None else []
                if hostile and rng.random() < 0.5 and not p.get("valid_plugs_only"):
                    return rng.choice(chargers)  # maybe absent at the station / wrong energy type
                if p.get("valid_plugs_only") or rng.random() < 0.8:
                    ok = [c for c in cs if mech is not None and mech.valid_charger(env.chargers[c])]
                    if ok:
                        return rng.choice(ok)
                    if p.get("valid_plugs_only"):
                        return None
                return rng.choice(cs) if cs else rng.choice(chargers)

            args = {}
            if kind in ("Idle", "OutOfService"):
                if kind == "OutOfService" and rng.random() > p.get("p_oos", 0.3):
                    kind = "Idle"
            elif kind == "DispatchTrip":
                if hostile and rng.random() < 0.15:
                    r = "r_missing"
                else:
                    # double dispatch: prefer requests that already have a vehicle, some of the time
                    taken = [i for i in rids if sim.requests[i].dispatched_vehicle]
                    r = rng.choice(taken) if taken and rng.random() < p.get("p_double", 0.3) else near(rids, sim.requests)
                if r is None:
                    continue
                args = {"request_id": r}
            elif kind in ("DispatchStation", "ChargeStation"):
                s = "s_missing" if (hostile and rng.random() < 0.15) else near(sids, sim.stations)
                if s is None:
                    continue
                c = plug_for(sim.stations.get(s))
                if c is None:
                    continue
                args = {"station_id": s, "charger_id": c}
            elif kind in ("ChargeBase", "DispatchBase", "ReserveBase"):
                b = "b_missing" if (hostile and rng.random() < 0.15) else near(bids, sim.bases)
                if b is None:
                    continue
                args = {"base_id": b}
                if kind == "ChargeBase":
                    base = sim.bases.get(b)
                    st = sim.stations.get(base.station_id) if base is not None and base.station_id else None
                    c = plug_for(st)
                    if c is None:
                        continue
                    args["charger_id"] = c
            elif kind == "Reposition":
                # a link of the network near one of the world's cells, or where another entity stands
                if self.cells and rng.random() < 0.7:
                    cell = rng.choice(self.cells)
                else:
                    cell = sim.vehicles[rng.choice(vids)].geoid
                pos = sim.road_network.position_from_geoid(cell)
                if pos is None:
                    continue
                args = {"destination": pos.link_id}
            out.append({"k": "instr", "g": self.index, "i": kind, "v": vid, "a": args})
        # release wave: every vehicle charging on one plug type of one station is told to leave in the same step, so that
        # several plugs free at once while vehicles wait (a queue is then served several places deep in one step)
        if p.get("p_wave") and rng.random() < p["p_wave"]:
            groups = {}
            for vid in vids:
                v = sim.vehicles[vid]
                if act(v) == "ChargingStation":
                    groups.setdefault((v.vehicle_state.station_id, v.vehicle_state.charger_id), []).append(vid)
            groups = {g: m for g, m in groups.items() if len(m) >= 2}
            if groups:
                g = rng.choice(sorted(groups))
                for vid in groups[g]:
                    out.append({"k": "instr", "g": self.index, "i": "Idle", "v": vid, "a": {}})
        return out

    # -- InstructionGenerator --------------------------------------------------------------------------
    def generate_instructions(self, sim, env):
        self.calls += 1
        key = str(int(sim.sim_time))
        if self.rng is not None and key not in self.done:
            ops = self._choose(sim, env)
            self.done.add(key)
            if ops:
                self.plan["ops"].setdefault(key, []).extend(ops)
        ops = [o for o in self.plan["ops"].get(key, ()) if o.get("k") == "instr" and o.get("g") == self.index]
        return self, tuple(build_instruction(o) for o in ops)


import dataclasses as _dc


@_dc.dataclass(frozen=True)
class Ticker(InstructionGenerator):
    """a user generator written the way HIVE's protocol intends: immutable, its state (a call counter) travels in the NEW
    generator it returns.  What it emits is a pure function of (counter, state), so any execution shape that threads the
    returned generator into the next step behaves identically; a pipeline that drops or re-uses a stale generator does not."""
    cells: tuple = ()
    count: int = 0
    period: int = 2

    def generate_instructions(self, sim, env):
        nxt = _dc.replace(self, count=self.count + 1)
        vids = sorted(sim.vehicles)
        if not vids or self.count % self.period != 0:
            return nxt, ()
        j = self.count // self.period
        vid = vids[j % len(vids)]
        v = sim.vehicles[vid]
        if type(v.vehicle_state).__name__ == "Idle" and self.cells:
            pos = sim.road_network.position_from_geoid(self.cells[j % len(self.cells)])
            if pos is not None:
                return nxt, (RepositionInstruction(vid, pos.link_id),)
        if type(v.vehicle_state).__name__ == "Repositioning":
            return nxt, (IdleInstruction(vid),)
        return nxt, ()


@_dc.dataclass(frozen=True)
class Ranker(InstructionGenerator):
    """a user-written fleet manager of the simplest kind, built from HIVE's own public helper the way a custom generator would be:
    each step it asks `instruct_vehicles_to_dispatch_to_station` where ONE free vehicle (rotating with the clock) should charge and
    sends it there, whatever its battery.  A pure function of (state, configuration): stepping a saved state twice must agree."""

    def generate_instructions(self, sim, env):
        from nrel.hive.dispatcher.instruction_generator.instruction_generator_ops import instruct_vehicles_to_dispatch_to_station
        free = [v for _, v in sorted(sim.vehicles.items()) if type(v.vehicle_state).__name__ in ("Idle", "Repositioning")]
        if not free:
            return self, ()
        k = int(sim.sim_time) // max(1, int(sim.sim_timestep_duration_seconds))
        cfg = env.config.dispatcher
        ins = instruct_vehicles_to_dispatch_to_station(
            n=1, max_search_radius_km=cfg.max_search_radius_km, vehicles=(free[k % len(free)],), simulation_state=sim, environment=env,
            target_soc=cfg.ideal_fastcharge_soc_limit, charging_search_type=cfg.charging_search_type)
        return self, tuple(ins)


class Spy(InstructionGenerator):
    """delegates to a real built-in generator and records (state, environment, what it returned)"""

    def __init__(self, inner, log):
        self.inner = inner
        self.log = log

    @property
    def name(self):
        return self.inner.name

    def generate_instructions(self, sim, env):
        g, ins = self.inner.generate_instructions(sim, env)
        self.inner = g
        self.log.append((self.name, sim, env, tuple(ins)))
        return self, ins
