"""What one step of driving can cost at most, read off the raw consumption table (not through HIVE's cost functions)."""
MILE_KM = 1.609344


def stored(v):
    return sum(v.energy.values())


def step_cost_upper_bound(v, env, dt):
    """an upper bound, in the units of v's store, on what driving along v's route for one step of dt seconds can cost: the largest
    table entry times the most road the step can cover (each link's travel time is cut to whole seconds, hence one extra second per
    link).  None when there is nothing to say (no route, unknown powertrain or units)."""
    mech = env.mechatronics.get(v.mechatronics_id)
    pt = getattr(mech, "powertrain", None)
    route = getattr(v.vehicle_state, "route", None)
    if pt is None or not route:
        return None
    try:
        table = [float(x) for x in pt.consumption_energy_per_distance]
        vmax = max(float(l.speed_kmph) for l in route)
        d_km = min(sum(float(l.distance_km) for l in route), vmax * (dt + len(route)) / 3600.0) + 0.005
        du, eu = pt.distance_units.name, pt.energy_units.name
    except Exception:
        return None
    if du == "MILES":
        d = d_km / MILE_KM
    elif du == "KILOMETERS":
        d = d_km
    else:
        return None
    e = max(table) * d
    kinds = {et.name for et in v.energy}
    if kinds == {"ELECTRIC"}:
        return e / 1000.0 if eu == "WATT_HOUR" else e if eu == "KILOWATT_HOUR" else None
    if kinds == {"GASOLINE"}:
        return e if eu == "GALLON_GASOLINE" else None
    return None
