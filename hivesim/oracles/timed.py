"""C11 (timed inputs: requests, cancellations, tariffs) and C20 (shift clock): reference models computed from the input
files' content alone (the spec the files were written from), compared with events and state step by step."""
from collections import Counter, defaultdict

import h3

from ..runner import Oracle, V
from ..adversary import act
from ..world import hms_secs
from nrel.hive.reporting.report_type import ReportType as RT


class TariffModel:
    """the tariff in force per (station, plug), computed from the price table's content alone (+ external changes made through
    the public API between two cranks, which the plan records)"""

    def __init__(self, spec, sim):
        self.prices = spec.get("prices")
        self.cell = {sid: st.position.geoid for sid, st in sim.stations.items()}
        self.price = {(sid, cid): cs.price_per_kwh for sid, st in sim.stations.items() for cid, cs in st.state.items()}
        self.alt = {}
        self.row_i = 0
        if self.prices is None:
            # no price file: HIVE's documented default is a table pricing every plug type at 0.0 from time 0
            self.prices = {"by": "station_id", "rows": [[0, sid, cid, 0.0] for (sid, cid) in sorted(self.price)]}

    def names(self, key, sid):
        if self.prices["by"] == "station_id":
            return key == sid
        try:
            return h3.h3_to_parent(self.cell[sid], h3.h3_get_resolution(key)) == key
        except Exception:
            return False

    def external(self, ops):
        for o in ops:
            if o.get("what") == "set_price" and (o["station"], o["charger"]) in self.price:
                self.price[(o["station"], o["charger"])] = float(o["value"])
                self.alt.pop((o["station"], o["charger"]), None)

    def advance(self, T):
        """apply every row with time < T (file order); returns the batch"""
        batch = []
        if self.prices is None:
            return batch
        rows = self.prices["rows"]
        while self.row_i < len(rows) and rows[self.row_i][0] < T:
            batch.append(rows[self.row_i])
            self.row_i += 1
        by_plug = {}
        for (t0, key, plug, val) in batch:
            for sid in self.cell:
                if self.names(key, sid) and (sid, plug) in self.price:
                    by_plug.setdefault((sid, plug), {})[key] = float(val)
                    self.price[(sid, plug)] = float(val)
        for k in by_plug:
            self.alt.pop(k, None)
        for k, m in by_plug.items():
            if len(m) > 1:
                self.alt[k] = set(m.values())
        return batch

    def acceptable(self, sid, cid, value):
        want = self.price.get((sid, cid))
        if want is None or value == want:
            return True
        if value in self.alt.get((sid, cid), ()):
            self.price[(sid, cid)] = value
            return True
        return False


class C11(Oracle):
    prop = "C11"

    def start(self, run, rp):
        spec = run.spec
        self.start_t = spec["sim"]["start_time"]
        self.dt = spec["sim"]["timestep_duration_seconds"]
        self.timeout = spec["sim"]["request_cancel_time_seconds"]
        self.dep = {r["id"]: r["t"] for r in spec["requests"]}
        self.adm = {}
        for rid, t in self.dep.items():
            k = 0 if t < self.start_t else (t - self.start_t) // self.dt + 1
            Tk = self.start_t + k * self.dt
            assert Tk > t and (k == 0 or Tk - self.dt <= t)
            self.adm[rid] = k if t + self.timeout > Tk else None
        self.by_step = defaultdict(list)
        for rid, k in self.adm.items():
            if k is not None:
                self.by_step[k].append(rid)
        self.waiting = {}
        self.picked = set()
        self.cancelled = set()
        self.added = Counter()
        self.n_adm = self.n_cancel = self.n_price = 0
        # tariffs
        self.prices = spec.get("prices")
        self.station_cell = {}
        for sid, st in rp.s.stations.items():
            self.station_cell[sid] = st.position.geoid
        self.expected_price = {(sid, cid): cs.price_per_kwh for sid, st in rp.s.stations.items() for cid, cs in st.state.items()}
        self.row_i = 0
        self.pending_overlap = False
        return ()

    def _names(self, key, sid):
        """does a price row key name this station: by id, or by a region enclosing the station's cell"""
        if self.prices["by"] == "station_id":
            return key == sid
        try:
            res = h3.h3_get_resolution(key)
            return h3.h3_to_parent(self.station_cell[sid], res) == key
        except Exception:
            return False

    def step(self, ctx):
        out = []
        k, T = ctx.k, ctx.T
        nxt = ctx.nxt
        adds = [r.report["request_id"] for r in ctx.reports_of(RT.ADD_REQUEST_EVENT)]
        cancels = [r.report["request_id"] for r in ctx.reports_of(RT.CANCEL_REQUEST_EVENT)]
        exp_adds = sorted(self.by_step.get(k, ()))
        if sorted(adds) != exp_adds:
            early = [r for r in adds if self.adm.get(r) is None or self.adm[r] > k]
            late = [r for r in adds if self.adm.get(r) is not None and self.adm[r] < k]
            out.append(V("C11", "admission", k, f"step starting {T}: admitted {sorted(adds)}, the input says {exp_adds} (early/expired: {early}, late: {late})",
                         key="C11/admission/" + ("early" if early else "late" if late else "missing_or_duplicate")))
        for rid in adds:
            self.added[rid] += 1
            if self.added[rid] > 1:
                out.append(V("C11", "admitted_twice", k, f"request {rid} admitted {self.added[rid]} times"))
            self.waiting[rid] = self.dep.get(rid, 0)
            self.n_adm += 1
        # cancellation happens before pickups inside a step: a request waiting at the start of the step whose time is up
        exp_c = sorted(rid for rid, t0 in self.waiting.items()
                       if rid not in self.picked and rid not in self.cancelled and T >= t0 + self.timeout)
        if sorted(cancels) != exp_c:
            out.append(V("C11", "cancellation", k, f"step starting {T}: cancelled {sorted(cancels)}, expected {exp_c} (timeout {self.timeout})",
                         key="C11/cancellation/" + ("early_or_spurious" if set(cancels) - set(exp_c) else "late_or_missing")))
        self.cancelled.update(cancels)
        self.n_cancel += len(cancels)
        for r in ctx.reports_of(RT.PICKUP_REQUEST_EVENT):
            self.picked.add(r.report["request_id"])
        exp_wait = sorted(rid for rid in self.waiting if rid not in self.picked and rid not in self.cancelled)
        if sorted(nxt.requests) != exp_wait:
            out.append(V("C11", "waiting_set", k, f"waiting requests {sorted(nxt.requests)} but admitted-minus-resolved is {exp_wait}"))
        for rid in adds:
            q = (ctx.applied[-1][0].requests.get(rid) if ctx.applied else None) or nxt.requests.get(rid)
            if q is not None and int(q.departure_time) != self.dep.get(rid):
                out.append(V("C11", "departure_time", k, f"request {rid} admitted with departure {int(q.departure_time)}, input says {self.dep.get(rid)}"))
        if self.dt and any(t % self.dt for t in self.dep.values()):
            ctx.run.probes["unaligned_departure"] = 1
        # tariffs: rows with time < T take effect now, in file order, on exactly the stations and plug they name
        if self.prices is not None:
            rows = self.prices["rows"]
            batch = []
            while self.row_i < len(rows) and rows[self.row_i][0] < T:
                batch.append(rows[self.row_i])
                self.row_i += 1
            keys_of = {}      # station -> set of keys naming it in this window
            by_plug = {}      # (station, plug) -> {key: last value through that key}
            for (t0, key, plug, val) in batch:
                for sid in self.station_cell:
                    if self._names(key, sid) and (sid, plug) in self.expected_price:
                        keys_of.setdefault(sid, set()).add(key)
                        by_plug.setdefault((sid, plug), {})[key] = float(val)
                        self.expected_price[(sid, plug)] = float(val)
                        self.n_price += 1
            self.alternatives = {}
            for (sid, plug), m in by_plug.items():
                if len(m) > 1:
                    # the same station and plug named through different keys in one window: the statement does not order
                    # them, any of the named prices is accepted
                    self.alternatives[(sid, plug)] = set(m.values())
                    ctx.run.probes["same_plug_named_by_two_keys_in_one_window"] += 1
            for sid, ks in keys_of.items():
                if len(ks) > 1:
                    ctx.run.probes["station_named_by_two_keys_in_one_window"] += 1
            if batch:
                ctx.run.probes["price_rows_applied"] += len(batch)
                if any(not any(self._names(key, sid) for (_, key, _, _) in batch) for sid in self.station_cell):
                    ctx.run.probes["price_window_omits_a_station"] += 1
                if self.prices["by"] == "geoid" and any(h3.h3_get_resolution(key) > nxt.sim_h3_search_resolution for (_, key, _, _) in batch):
                    ctx.run.probes["region_finer_than_search_cell"] += 1
        else:
            batch = []
        for sid, st in nxt.stations.items():
            for cid, cs in st.state.items():
                want = self.expected_price.get((sid, cid))
                if want is None or cs.price_per_kwh == want:
                    continue
                alts = getattr(self, "alternatives", {}).get((sid, cid))
                if alts and cs.price_per_kwh in alts:
                    self.expected_price[(sid, cid)] = cs.price_per_kwh
                    continue
                # classify the cause (for the findings file): set by a row that does not name the station / entry lost
                foreign = [r for r in batch if r[2] == cid and float(r[3]) == cs.price_per_kwh and not self._names(r[1], sid)]
                cause = "foreign_region" if foreign else ("entry_lost" if any(self._names(r[1], sid) and r[2] == cid for r in batch) else "other")
                out.append(V("C11", "tariff", k, f"station {sid} plug {cid} costs {cs.price_per_kwh!r}, the table in force says {want!r}"
                             + (f" (price taken from row {foreign[0]} which does not name this station)" if foreign else ""),
                             key=f"C11/tariff/{cause}"))
        return out

    TIMED_INPUT_CODE = ("charging_price_update.py", "update_requests_from_file.py", "cancel_requests.py", "iterators.py", "station_ops.py")

    def aborted(self, run, k, exc, closing=False):
        # "never stopping the run" is about the timed inputs: an exception raised while they are being applied.  One that escapes
        # from somewhere else (a generator, a vehicle update) stops the run too, but is not this property's business: the run
        # is then counted as aborted like anywhere else.
        tb = exc.__traceback__
        while tb is not None:
            if tb.tb_frame.f_code.co_filename.endswith(self.TIMED_INPUT_CODE):
                return [V("C11", "run_stopped", k, f"the run stopped with {type(exc).__name__}: {exc}", key=f"C11/run_stopped/{type(exc).__name__}")]
            tb = tb.tb_next
        return []

    def nontrivial(self, run):
        return self.n_adm > 0 or self.n_price > 0


def in_shift(a, b, x):
    """start inclusive, end exclusive, wrap-around past midnight"""
    if a <= b:
        return a <= x < b
    return x >= a or x < b


class C20(Oracle):
    prop = "C20"

    def start(self, run, rp):
        spec = run.spec
        self.sched = {s[0]: (hms_secs(s[1]), hms_secs(s[2])) for s in spec.get("schedules") or ()}
        self.vsched = {v["id"]: v.get("schedule") for v in spec["vehicles"]}
        self.avail = {vid: False for vid, s in self.vsched.items() if s}
        self.flips = 0
        self.dispatched = 0
        out = []
        for vid in self.avail:
            if rp.s.vehicles[vid].driver_state.available:
                out.append(V("C20", "initial_availability", -1, f"human driver {vid} starts available"))
        return out

    def step(self, ctx):
        out = []
        k, T = ctx.k, ctx.T
        tod = T % 86400
        evs = defaultdict(list)
        for r in ctx.reports_of(RT.DRIVER_SCHEDULE_EVENT):
            evs[r.report["vehicle_id"]].append(r.report["schedule_event"])
        before = dict(self.avail)
        for vid, sname in self.vsched.items():
            if not sname:
                v = ctx.nxt.vehicles.get(vid)
                if v is not None and not v.driver_state.available:
                    out.append(V("C20", "autonomous_unavailable", k, f"autonomous vehicle {vid} is unavailable"))
                if evs.get(vid):
                    out.append(V("C20", "event_for_autonomous", k, f"schedule event for autonomous vehicle {vid}"))
                continue
            a, b = self.sched[sname]
            exp = in_shift(a, b, tod)
            got = ctx.nxt.vehicles[vid].driver_state.available
            if got != exp:
                out.append(V("C20", "availability", k, f"driver {vid} shift {sname} [{a},{b}) at time-of-day {tod}: available={got}, expected {exp}"))
            exp_ev = [] if exp == self.avail[vid] else ["on" if exp else "off"]
            if evs.get(vid, []) != exp_ev:
                out.append(V("C20", "event", k, f"driver {vid}: schedule events {evs.get(vid, [])}, expected {exp_ev}"))
            if exp != self.avail[vid]:
                self.flips += 1
            self.avail[vid] = exp
            if a > b:
                ctx.run.probes["wrapping_shift"] = 1
            if tod in (a, b):
                ctx.run.probes["step_on_shift_boundary"] += 1
        if ctx.k > 0 and (T // 86400) != ((T - ctx.dt) // 86400):
            ctx.run.probes["midnight_crossed"] += 1
        # the built-in dispatcher never assigns a new request to a driver who is off shift (as of this step's start)
        for name, sim, env, ins in ctx.spy:
            if name != "Dispatcher":
                continue
            for i in ins:
                self.dispatched += 1
                vid = i.vehicle_id
                if self.vsched.get(vid) and not self.avail[vid]:
                    out.append(V("C20", "dispatch_offshift", k, f"the dispatcher assigned request {i.request_id} to driver {vid} who is off shift"))
        return out

    def nontrivial(self, run):
        return self.flips > 0
