"""Ledger / life-cycle oracles driven by the per-step state pair and the reports of the step: C03 C04 C05 C18."""
import math
from collections import Counter, defaultdict

from ..runner import Oracle, V
from .energy import step_cost_upper_bound, stored
from ..adversary import act
from nrel.hive.reporting.report_type import ReportType as RT


def _capacity(mech):
    c = getattr(mech, "battery_capacity_kwh", None)
    return c if c is not None else getattr(mech, "tank_capacity_gallons")


def _admitted_requests(ctx):
    """requests as they stood after this step's timed inputs were applied (state handed to apply_instructions)"""
    if ctx.applied:
        return ctx.applied[-1][0].requests
    return ctx.prev.requests


# ---------------------------------------------------------------------------------------------------------
class C03(Oracle):
    prop = "C03"

    def start(self, run, rp):
        self.R = {}
        self.known = {r["id"] for r in run.spec["requests"]}
        self.deadline = {}
        self.pickups = 0
        self.dropoffs = 0
        return ()

    def step(self, ctx):
        out = []
        k, run = ctx.k, ctx.run
        prev, nxt = ctx.prev, ctx.nxt
        R = self.R
        adds = [r.report["request_id"] for r in ctx.reports_of(RT.ADD_REQUEST_EVENT)]
        for rid in adds:
            if rid in R:
                out.append(V("C03", "double_add", k, f"request {rid} admitted twice"))
            if rid not in self.known:
                out.append(V("C03", "unknown_request", k, f"request {rid} admitted but not in the input"))
            R[rid] = "waiting"
        for rid in nxt.requests:
            if rid not in R:
                out.append(V("C03", "present_without_add", k, f"request {rid} is waiting but was never reported as added"))
                R[rid] = "waiting"
        pk = Counter(r.report["request_id"] for r in ctx.reports_of(RT.PICKUP_REQUEST_EVENT))
        cn = Counter(r.report["request_id"] for r in ctx.reports_of(RT.CANCEL_REQUEST_EVENT))
        gone = (set(prev.requests) | set(adds)) - set(nxt.requests)
        for rid in sorted(gone):
            if pk[rid] + cn[rid] != 1:
                out.append(V("C03", "vanish_or_double", k, f"request {rid} left the simulation with {pk[rid]} pickups and {cn[rid]} cancellations reported"))
        for rid in sorted(set(pk) | set(cn)):
            if rid not in gone:
                out.append(V("C03", "resolved_but_still_waiting", k, f"request {rid} reported picked up/cancelled but is still waiting"))
            if R.get(rid) != "waiting":
                out.append(V("C03", "resolve_nonwaiting", k, f"request {rid} resolved again; it was already {R.get(rid)}"))
        # fares: each pickup credits the picking vehicle, once, with the request's value; nobody else gains money
        reqs_now = _admitted_requests(ctx)
        fare = defaultdict(float)
        for r in ctx.reports_of(RT.PICKUP_REQUEST_EVENT):
            rid, vid = r.report["request_id"], r.report["vehicle_id"]
            q = reqs_now.get(rid) or prev.requests.get(rid)
            value = q.value if q is not None else float(r.report["price"])
            fare[vid] += value
            R[rid] = ("onboard", vid)
            self.pickups += 1
            v1 = nxt.vehicles.get(vid)
            if v1 is None or not (act(v1) == "ServicingTrip" and v1.vehicle_state.request.id == rid) :
                if not (v1 is not None and act(v1) == "OutOfService"):
                    out.append(V("C03", "pickup_without_passenger", k, f"vehicle {vid} reported picking up {rid} but is {act(v1) if v1 else None}"))
            if v1 is not None and act(v1) == "ServicingTrip":
                rt = v1.vehicle_state.route
                t = sum(l.distance_km / l.speed_kmph * 3600.0 for l in rt if l.speed_kmph > 0)
                n = math.ceil(t / ctx.dt) + 2
                slow = min([l.speed_kmph for l in rt if l.speed_kmph > 0] or [40.0])
                n2 = math.ceil((t + n * (0.0013 / slow * 3600.0)) / ctx.dt) * 2 + 5
                self.deadline[rid] = (k + n2, vid)
        paid = defaultdict(float)
        for r in ctx.reports_of(RT.VEHICLE_CHARGE_EVENT):
            paid[r.report["vehicle_id"]] += float(r.report["price"])
        for vid, v1 in nxt.vehicles.items():
            v0 = prev.vehicles.get(vid)
            if v0 is None:
                continue
            want = fare.get(vid, 0.0) - paid.get(vid, 0.0)
            got = v1.balance - v0.balance
            if abs(got - want) > 1e-9 * max(1.0, abs(want), abs(v1.balance)):
                out.append(V("C03", "fare_credit", k, f"vehicle {vid} balance changed by {got!r}; fares of its pickups {fare.get(vid, 0.0)!r} minus charging payments {paid.get(vid, 0.0)!r}"))
        for rid in cn:
            R[rid] = "cancelled"
        for r in ctx.reports_of(RT.DROPOFF_REQUEST_EVENT):
            rid, vid = r.report["request_id"], r.report["vehicle_id"]
            if R.get(rid) != ("onboard", vid):
                out.append(V("C03", "bad_dropoff", k, f"request {rid} dropped off by {vid} but its status was {R.get(rid)}"))
            R[rid] = ("delivered", vid)
            self.dropoffs += 1
            self.deadline.pop(rid, None)
        # carrying vehicles keep carrying, whatever was instructed
        for vid, v0 in prev.vehicles.items():
            if act(v0) == "ServicingTrip" and len(v0.vehicle_state.route) > 0:
                v1 = nxt.vehicles.get(vid)
                rid = v0.vehicle_state.request.id
                same = v1 is not None and act(v1) == "ServicingTrip" and v1.vehicle_state.request.id == rid
                if vid in ctx.instructed:
                    run.probes["instruction_to_loaded_vehicle"] += 1
                if not same:
                    if v1 is not None and act(v1) == "OutOfService" and not ctx.accepted.get(vid):
                        R[rid] = ("stranded", vid)
                        self.deadline.pop(rid, None)
                        run.probes["stranded_passenger"] += 1
                        # "... unless that vehicle runs out of energy": it must really lack the energy for the step's leg
                        bound = step_cost_upper_bound(v0, ctx.env, ctx.dt)
                        if bound is not None and stored(v0) > 1.5 * bound + 1e-9:
                            out.append(V("C03", "stranded_with_energy", k,
                                         f"vehicle {vid} carrying {rid} went out of service holding {stored(v0)!r}; one step along its route costs at most {bound!r}"))
                    else:
                        out.append(V("C03", "diverted", k, f"vehicle {vid} carrying {rid} with route left is now {act(v1) if v1 else None} (instruction accepted: {ctx.accepted.get(vid)})"))
        # picked up and delivered in the same step / still on board: bookkeeping for 'onboard' sanity
        for rid, st in list(R.items()):
            if isinstance(st, tuple) and st[0] == "onboard":
                v1 = nxt.vehicles.get(st[1])
                if v1 is not None and act(v1) == "OutOfService":
                    R[rid] = ("stranded", st[1])
                    self.deadline.pop(rid, None)
                elif v1 is None or not (act(v1) == "ServicingTrip" and v1.vehicle_state.request.id == rid):
                    out.append(V("C03", "passenger_lost", k, f"request {rid} was on board of {st[1]} which is now {act(v1) if v1 else None} without a drop-off"))
                    R[rid] = ("lost", st[1])
        for rid, (dl, vid) in list(self.deadline.items()):
            if k > dl:
                out.append(V("C03", "not_delivered_in_time", k, f"request {rid} on board of {vid} not delivered by step {dl}"))
                self.deadline.pop(rid)
        if any(q.dispatched_vehicle for q in nxt.requests.values()):
            pass
        if ctx.run.stats.get("expiry_while_enroute"):
            run.probes["cancel_while_enroute"] = ctx.run.stats["expiry_while_enroute"]
        return out

    def end(self, run, rp):
        out = []
        for rid, st in self.R.items():
            if st == "waiting" and rid not in rp.s.requests:
                out.append(V("C03", "vanished", run.steps_done, f"request {rid} neither resolved nor waiting at the end"))
        return out

    def nontrivial(self, run):
        return self.pickups > 0 or any(s == "cancelled" for s in self.R.values())


# ---------------------------------------------------------------------------------------------------------
class C04(Oracle):
    prop = "C04"

    def start(self, run, rp):
        self.e0 = {vid: dict(v.energy) for vid, v in rp.s.vehicles.items()}
        self.kinds = set()
        return self._levels(rp.s, rp.e, -1)

    def _levels(self, sim, env, k):
        out = []
        for vid, v in sim.vehicles.items():
            cap = _capacity(env.mechatronics[v.mechatronics_id])
            for et, e in v.energy.items():
                if e < 0.0 or e > cap * (1 + 1e-12):
                    out.append(V("C04", "bounds", k, f"vehicle {vid} {et.name} level {e!r} outside [0, {cap}]"))
        return out

    def step(self, ctx):
        out = self._levels(ctx.nxt, ctx.env, ctx.k)
        k, dt, run = ctx.k, ctx.dt, ctx.run
        charges = defaultdict(list)
        for r in ctx.reports_of(RT.VEHICLE_CHARGE_EVENT):
            charges[r.report["vehicle_id"]].append(r.report)
        stations0 = ctx.applied[-1][0].stations if ctx.applied else ctx.prev.stations
        for vid, v1 in ctx.nxt.vehicles.items():
            v0 = ctx.prev.vehicles.get(vid)
            if v0 is None:
                continue
            mech = ctx.env.mechatronics[v1.mechatronics_id]
            mname = type(mech).__name__
            cap = _capacity(mech)
            a0, a1 = act(v0), act(v1)
            dd = v1.distance_traveled_km - v0.distance_traveled_km
            for et, e in v1.energy.items():
                self.kinds.add((mname, a1))
                ident = self.e0[vid][et] + v1.energy_gained[et] - v1.energy_expended[et]
                if abs(ident - e) > 1e-9 * cap * (k + 2):
                    out.append(V("C04", "identity", k, f"vehicle {vid} ({mname}) level {e!r} != initial {self.e0[vid][et]!r} + gained {v1.energy_gained[et]!r} - expended {v1.energy_expended[et]!r}",
                                 key=f"C04/identity/{mname}"))
                dg = v1.energy_gained[et] - v0.energy_gained[et]
                dx = v1.energy_expended[et] - v0.energy_expended[et]
                if dg < 0 or dx < 0:
                    out.append(V("C04", "monotone", k, f"vehicle {vid} gained/expended counters decreased ({dg!r}, {dx!r})"))
                if dd > 0 and not dx > 0:
                    out.append(V("C04", "drive_free", k, f"vehicle {vid} ({mname}) drove {dd!r} km and expended nothing", key=f"C04/drive_free/{mname}"))
                if dd > 0 and not (v0.energy[et] - e > 0) and not charges.get(vid):
                    out.append(V("C04", "drive_level_not_lower", k, f"vehicle {vid} ({mname}) drove {dd!r} km but its level went {v0.energy[et]!r} -> {e!r}",
                                 key=f"C04/drive_level_not_lower/{mname}"))
                usable_queue = True
                if a1 == "ChargeQueueing":
                    qs = ctx.nxt.stations.get(v1.vehicle_state.station_id)
                    qc = qs.state.get(v1.vehicle_state.charger_id) if qs is not None else None
                    # a vehicle queued (by a hostile instruction) for a plug it can never use is outside the statement
                    usable_queue = qc is not None and qc.charger.energy_type in v1.energy
                if a0 == a1 and a1 in ("Idle", "ChargeQueueing") and v0.energy[et] > 1e-9 and usable_queue:
                    if not dx > 0:
                        out.append(V("C04", "idle_free", k, f"vehicle {vid} ({mname}) spent a step {a1} and expended nothing", key=f"C04/idle_free/{mname}"))
                    if not (v0.energy[et] - e > 0):
                        out.append(V("C04", "idle_level_not_lower", k, f"vehicle {vid} ({mname}) spent a step {a1} but its level went {v0.energy[et]!r} -> {e!r}",
                                     key=f"C04/idle_level_not_lower/{mname}"))
                chs = [c for c in charges.get(vid, ()) if c["energy_units"] == et.units]
                if chs:
                    ch = chs[0]
                    st = stations0.get(ch["station_id"])
                    de = e - v0.energy[et]
                    if de < 0:
                        out.append(V("C04", "charge_lowers", k, f"vehicle {vid} charged and its level dropped by {-de!r}"))
                    if st is not None and ch["charger_id"] in st.state:
                        rate = st.state[ch["charger_id"]].charger.rate
                        lim = rate * dt / 3600.0 if et.name == "ELECTRIC" else rate * dt
                        if de > lim * (1 + 1e-9) + 1e-12:
                            out.append(V("C04", "charge_overrate", k,
                                         f"vehicle {vid} gained {de!r} in a {dt}-s step on plug {ch['charger_id']} rated {rate!r} (limit {lim!r})",
                                         key="C04/charge_overrate"))
                        if dt % max(1, run.spec.get("pc_step", 60)) != 0:
                            run.probes["charge_step_not_multiple_of_curve_step"] += 1
                elif dg > 0:
                    out.append(V("C04", "gain_without_charge", k, f"vehicle {vid} gained {dg!r} without a charging step"))
                if e <= 0 and v1.position.geoid != v0.position.geoid:
                    out.append(V("C04", "moved_to_empty", k, f"vehicle {vid} moved and ended the step with an empty store"))
            if a1 == "OutOfService" and a0 != "OutOfService" and not ctx.accepted.get(vid):
                if v1.position.geoid != v0.position.geoid or dd != 0:
                    out.append(V("C04", "oos_moved", k, f"vehicle {vid} went out of service for lack of energy but moved in the same step"))
        return out

    def nontrivial(self, run):
        return len(self.kinds) >= 2


# ---------------------------------------------------------------------------------------------------------
class C05(Oracle):
    prop = "C05"

    def start(self, run, rp):
        from .timed import TariffModel
        self.vfare = defaultdict(float)
        self.vpaid = defaultdict(float)
        self.srecv = defaultdict(float)
        self.sessions = 0
        self.priced = 0
        self.model = TariffModel(run.spec, rp.s)   # the tariff in force according to the price table itself
        return ()

    def step(self, ctx):
        out = []
        k, prev, nxt = ctx.k, ctx.prev, ctx.nxt
        tariffs = ctx.applied[-1][0].stations if ctx.applied else nxt.stations
        self.model.external(ctx.ext_ops)
        self.model.advance(ctx.T)
        charges = ctx.reports_of(RT.VEHICLE_CHARGE_EVENT)
        per_v = defaultdict(list)
        per_s_pay = defaultdict(float)
        per_s_energy = defaultdict(lambda: defaultdict(float))
        for r in charges:
            ch = r.report
            vid, sid, cid = ch["vehicle_id"], ch["station_id"], ch["charger_id"]
            per_v[vid].append(ch)
            st = tariffs.get(sid)
            price = st.state[cid].price_per_kwh if st is not None and cid in st.state else None
            energy = float(ch["energy"])
            if price is None:
                out.append(V("C05", "charge_on_unknown_plug", k, f"vehicle {vid} charged on {sid}/{cid} which does not exist"))
                continue
            if not self.model.acceptable(sid, cid, price):
                out.append(V("C05", "tariff_not_the_one_in_force", k,
                             f"vehicle {vid} charged on {sid}/{cid} at {price!r} per unit but the price table in force says {self.model.price.get((sid, cid))!r}"))
            pay = energy * price
            if abs(float(ch["price"]) - pay) > 1e-9 * max(1.0, abs(pay)):
                out.append(V("C05", "payment_vs_tariff", k, f"vehicle {vid} paid {ch['price']!r} for {energy!r} at tariff {price!r} on {sid}/{cid}"))
            if price < 0 and energy > 0:
                ctx.run.probes["payment_at_negative_tariff"] += 1
            if price != 0:
                self.priced += 1
                if prev.stations.get(sid) is not None and cid in prev.stations[sid].state and prev.stations[sid].state[cid].price_per_kwh != price:
                    ctx.run.probes["price_changed_during_session"] += 1
            self.sessions += 1
            self.vpaid[vid] += pay
            self.srecv[sid] += pay
            per_s_pay[sid] += pay
            per_s_energy[sid][ch["energy_units"]] += energy
            # energy of the event = what the vehicle really gained
            v0, v1 = prev.vehicles.get(vid), nxt.vehicles.get(vid)
            if v0 is not None and v1 is not None:
                for et in v1.energy:
                    if et.units == ch["energy_units"]:
                        dg = v1.energy_gained[et] - v0.energy_gained[et]
                        if abs(dg - energy) > 1e-9 * max(1.0, abs(energy)):
                            out.append(V("C05", "event_energy_vs_vehicle", k, f"vehicle {vid} charge report says {energy!r} but it gained {dg!r}"))
        for vid, chs in per_v.items():
            if len(chs) > 1:
                out.append(V("C05", "two_charges_one_step", k, f"vehicle {vid} has {len(chs)} charging reports in one step"))
        for r in ctx.reports_of(RT.PICKUP_REQUEST_EVENT):
            reqs = ctx.applied[-1][0].requests if ctx.applied else prev.requests
            q = reqs.get(r.report["request_id"]) or prev.requests.get(r.report["request_id"])
            self.vfare[r.report["vehicle_id"]] += q.value if q is not None else float(r.report["price"])
        # per step, both sides
        for sid, s1 in nxt.stations.items():
            s0 = prev.stations.get(sid)
            if s0 is None:
                continue
            db = s1.balance - s0.balance
            if abs(db - per_s_pay.get(sid, 0.0)) > 1e-9 * max(1.0, abs(db)):
                out.append(V("C05", "station_receipt", k, f"station {sid} balance rose by {db!r} but vehicles paid it {per_s_pay.get(sid, 0.0)!r} this step"))
            for et in s1.energy_dispensed:
                dd = s1.energy_dispensed[et] - s0.energy_dispensed[et]
                want = per_s_energy.get(sid, {}).get(et.units, 0.0)
                if abs(dd - want) > 1e-9 * max(1.0, abs(want)):
                    out.append(V("C05", "station_dispensed", k, f"station {sid} dispensed {dd!r} {et.name} but vehicles report {want!r}"))
        # cumulative
        for et in (next(iter(nxt.stations.values())).energy_dispensed if nxt.stations else ()):
            g = sum(v.energy_gained.get(et, 0.0) for v in nxt.vehicles.values())
            dsp = sum(s.energy_dispensed.get(et, 0.0) for s in nxt.stations.values())
            if abs(g - dsp) > 1e-9 * max(1.0, g) * (k + 2):
                out.append(V("C05", "energy_conservation", k, f"{et.name}: vehicles gained {g!r}, stations dispensed {dsp!r}"))
        if not nxt.stations:
            for v in nxt.vehicles.values():
                if any(x > 0 for x in v.energy_gained.values()):
                    out.append(V("C05", "energy_conservation", k, f"vehicle {v.id} gained energy but there are no stations"))
        for vid, v in nxt.vehicles.items():
            want = self.vfare[vid] - self.vpaid[vid]
            if abs(v.balance - want) > 1e-9 * max(1.0, abs(want), self.vfare[vid], self.vpaid[vid]) * (k + 2):
                out.append(V("C05", "vehicle_balance", k, f"vehicle {vid} balance {v.balance!r} != fares {self.vfare[vid]!r} - payments {self.vpaid[vid]!r}"))
        for sid, s in nxt.stations.items():
            if abs(s.balance - self.srecv[sid]) > 1e-9 * max(1.0, self.srecv[sid]) * (k + 2):
                out.append(V("C05", "station_balance", k, f"station {sid} balance {s.balance!r} != receipts {self.srecv[sid]!r}"))
        return out

    def nontrivial(self, run):
        return self.sessions > 0


# ---------------------------------------------------------------------------------------------------------
class C18(Oracle):
    """FIFO reference model per (station, plug type), fed by observation only: a vehicle's place in the queue is the step at
    the end of which it was first seen queueing there without interruption (ties by vehicle id) -- HIVE's own enqueue_time
    field is not trusted, so a change that silently re-stamps a waiting vehicle cannot hide behind it."""
    prop = "C18"

    def start(self, run, rp):
        self.served_from_queue = 0
        self.contended = 0
        self.joined = {}   # vehicle id -> (station, plug, step at the end of which it was first seen queueing)
        for vid, v in rp.s.vehicles.items():
            if act(v) == "ChargeQueueing":
                self.joined[vid] = (v.vehicle_state.station_id, v.vehicle_state.charger_id, -1)
        return ()

    def step(self, ctx):
        out = []
        prev, nxt, k = ctx.prev, ctx.nxt, ctx.k
        # the queues as they stood at the end of the previous step
        members_of = {}
        for vid, (sid, cid, j) in self.joined.items():
            members_of.setdefault((sid, cid), []).append(vid)
        for key in sorted(members_of):
            members = members_of[key]
            st = prev.stations.get(key[0])
            if st is None or key[1] not in st.state:
                continue
            charger = st.state[key[1]].charger
            served, waiting = [], []
            for vid in members:
                v1 = nxt.vehicles.get(vid)
                if v1 is None:
                    continue
                a1 = act(v1)
                if a1 == "ChargingStation" and v1.vehicle_state.station_id == key[0] and v1.vehicle_state.charger_id == key[1]:
                    if vid not in ctx.instructed:
                        served.append(vid)
                elif a1 == "ChargeQueueing" and (v1.vehicle_state.station_id, v1.vehicle_state.charger_id) == key:
                    waiting.append(vid)
            self.served_from_queue += len(served)
            if len(served) >= 2:
                ctx.run.probes["several_served_from_one_queue_in_one_step"] += 1
                if waiting:
                    ctx.run.probes["several_served_in_one_step_and_others_left_waiting"] += 1
            if served and waiting:
                self.contended += 1
                ctx.run.probes["queue_partially_served"] += 1
            for s_ in served:
                for w_ in waiting:
                    if (self.joined[w_][2], w_) < (self.joined[s_][2], s_):
                        usable = charger.energy_type in nxt.vehicles[w_].energy
                        if usable:
                            out.append(V("C18", "fifo", k,
                                         f"station {key[0]} plug {key[1]}: {s_} (in the queue since step {self.joined[s_][2]}) started charging while {w_} (in the queue since step {self.joined[w_][2]}) still waits"
                                         + (" [it received an instruction this step and is still queueing]" if w_ in ctx.instructed else "")))
                        else:
                            ctx.run.probes["unusable_plug_in_queue"] += 1
            if len(members) >= 2 and len({self.joined[m][2] for m in members}) < len(members):
                ctx.run.probes["tied_enqueue_time"] += 1
            if sorted(members) != sorted(members, key=lambda m: (self.joined[m][2], m)):
                ctx.run.probes["arrival_order_differs_from_id_order"] += 1
        # advance the observed queues to the end of this step
        new = {}
        for vid, v1 in nxt.vehicles.items():
            if act(v1) == "ChargeQueueing":
                key = (v1.vehicle_state.station_id, v1.vehicle_state.charger_id)
                old = self.joined.get(vid)
                new[vid] = old if (old is not None and old[:2] == key) else (key[0], key[1], k)
        self.joined = new
        return out

    def nontrivial(self, run):
        return self.served_from_queue > 0
