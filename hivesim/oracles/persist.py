"""C16: earlier simulation states are never modified; re-stepping a saved state is repeatable."""
import hashlib

from ..runner import Oracle, V
from ..fingerprint import canon, digest, sim_canon, canon_report, first_difference


def road_network_fp(rn):
    """digest of everything observable on the road network object (link table, graph attributes)"""
    h = hashlib.sha256()
    h.update(type(rn).__name__.encode())
    h.update(repr(getattr(rn, "sim_h3_resolution", None)).encode())
    lh = getattr(rn, "link_helper", None)
    if lh is not None:
        h.update(repr(canon(lh.links)).encode())
        h.update(repr(tuple(lh.links_linkid_lookup)).encode())
    g = getattr(rn, "graph", None)
    if g is not None:
        h.update(repr(sorted((n, tuple(sorted((k, repr(v)) for k, v in d.items()))) for n, d in g.nodes(data=True))).encode())
        h.update(repr(sorted((u, v, tuple(sorted((k, repr(x)) for k, x in d.items()))) for u, v, d in g.edges(data=True))).encode())
    h.update(repr(getattr(rn, "min_speed_kmph", None)).encode())
    return h.hexdigest()


def deep_fp(sim):
    return digest(sim_canon(sim, drop_ids=False, with_applied=True))


class C16(Oracle):
    prop = "C16"

    def __init__(self, resteps=3, recheck_every=25):
        self.resteps = resteps
        self.recheck_every = recheck_every

    def start(self, run, rp):
        self.originals = []   # (step, state handed to StepSimulation.update, canonical result, canonical step events)
        self.vs_original = 0
        self.saved = [(rp.s, deep_fp(rp.s), -1)]
        self.rn_fp = road_network_fp(rp.s.road_network)
        self.rn = rp.s.road_network
        self.rechecks = 0
        self.resteps_done = 0
        self.hot = {}         # step -> how much the built-in generators had to decide from the state saved after it (worth stepping again)
        return ()

    def _recheck(self, k):
        out = []
        for s, f, at in self.saved:
            self.rechecks += 1
            if deep_fp(s) != f:
                out.append(V("C16", "saved_state_changed", k, f"the state saved after step {at} reads differently after step {k}"))
                break
        return out

    def step(self, ctx):
        out = []
        score = 0
        for name, sim, _, ins in ctx.spy:
            if ins and name in ("ChargingFleetManager", "Ranker"):
                busy = {(v.vehicle_state.station_id, v.vehicle_state.charger_id) for v in sim.vehicles.values() if type(v.vehicle_state).__name__ == "ChargingStation"}
                waiting = {(v.vehicle_state.station_id, v.vehicle_state.charger_id) for v in sim.vehicles.values() if type(v.vehicle_state).__name__ == "ChargeQueueing"}
                score += 1 + 3 * bool(busy & waiting) + bool(busy)
            elif ins:
                score += 1
        if score:
            self.hot[ctx.k - 1] = score
        # the state handed in must still read the same after the step
        self.saved.append((ctx.nxt, deep_fp(ctx.nxt), ctx.k))
        if ctx.applied:
            sim_in, _, sim_out = ctx.applied[-1]
            self.saved.append((sim_in, deep_fp(sim_in), ctx.k))
        # remember what this step made of the state it was handed (for the comparison at the end); not under injected failures
        if ctx.step_io is not None and not ctx.fired and not ctx.run.plan["run"].get("buggify") and (ctx.k * 2654435761 + ctx.run.seed) % 5 < 2:
            sim_in, sim_out = ctx.step_io
            ev = sorted(canon_report(r) for r in ctx.reports if r.report_type.name not in ("ADD_REQUEST_EVENT", "CANCEL_REQUEST_EVENT"))
            self.originals.append((ctx.k, sim_in, sim_canon(sim_out, drop_ids=True), ev))
        if ctx.k % self.recheck_every == self.recheck_every - 1:
            out += self._recheck(ctx.k)
        else:
            # always re-read the immediate predecessor
            s, f, at = self.saved[-3] if ctx.applied and len(self.saved) >= 3 else self.saved[-2]
            if deep_fp(s) != f:
                out.append(V("C16", "saved_state_changed", ctx.k, f"the state saved after step {at} reads differently after step {ctx.k}"))
        return out

    def end(self, run, rp):
        out = self._recheck(run.steps_done)
        if road_network_fp(self.rn) != self.rn_fp:
            out.append(V("C16", "road_network_changed", run.steps_done, "the road network shared by all saved states was modified"))
        if out:
            return out
        # stepping the same saved state twice with the same deterministic controller gives the same result
        states = [x for x in self.saved if x[2] >= 0 and x[2] < run.steps_done - 1]
        if not states:
            return out
        # pick deterministically spread samples of end-of-step states (every other entry is a mid-step state when applied)
        picks = []
        n = len(states)
        hot = [x for x in states if x[2] in self.hot]
        hot = [x for i, x in enumerate(hot) if i == 0 or hot[i - 1][0] is not x[0]]
        if hot:
            # the states from which the built-in generators had most to compute first, ties spread by the seed
            hot.sort(key=lambda x: (-self.hot[x[2]], (x[2] * 2654435761 + run.seed) % 1009))
            picks += hot[:6]
            run.probes["restepped_where_the_builtin_generators_decided"] += 1
            if self.hot[hot[0][2]] >= 4:
                run.probes["restepped_with_a_busy_and_queued_station_being_ranked"] += 1
        for j in range(self.resteps):
            picks.append(states[(j * 7919 + run.seed) % n])
        step_fn = rp.u.step_update
        env = rp.e
        for s, f, at in picks:
            if int(s.sim_time) >= int(env.config.sim.end_time):
                continue
            res = []
            for rep in range(2):
                del env.reporter.reports[:]
                nxt, _ = step_fn.update(s, env)
                reports = sorted(canon_report(r) for r in env.reporter.reports)
                del env.reporter.reports[:]
                res.append((sim_canon(nxt, drop_ids=True), reports))
            self.resteps_done += 1
            if res[0][0] != res[1][0]:
                out.append(V("C16", "restep_differs", at, f"stepping the state saved after step {at} twice gave different states: {first_difference(res[0][0], res[1][0])}"))
            elif res[0][1] != res[1][1]:
                out.append(V("C16", "restep_events_differ", at, f"stepping the state saved after step {at} twice gave different events"))
            if deep_fp(s) != f:
                out.append(V("C16", "saved_state_changed", at, f"the state saved after step {at} was modified by stepping it"))
        # ... and the same as the FIRST time, i.e. as the run itself made of it (this is what notices state that lives outside
        # the SimulationState -- a cache or table inside the environment -- being changed by stepping)
        for k, sim_in, want_c, want_ev in self.originals[-6:] + self.originals[:2]:
            del env.reporter.reports[:]
            nxt, _ = step_fn.update(sim_in, env)
            got_ev = sorted(canon_report(r) for r in env.reporter.reports)
            del env.reporter.reports[:]
            self.vs_original += 1
            got_c = sim_canon(nxt, drop_ids=True)
            if got_c != want_c:
                out.append(V("C16", "restep_differs_from_first_time", k, f"stepping the state that step {k} was computed from again gives a different state than the run itself did: {first_difference(want_c, got_c)}"))
                break
            if got_ev != want_ev:
                out.append(V("C16", "restep_events_differ_from_first_time", k, f"stepping the state that step {k} was computed from again gives different events than the run itself did"))
                break
        run.probes["resteps_compared_with_the_run"] = self.vs_original
        out += self._recheck(run.steps_done)
        return out

    def nontrivial(self, run):
        return self.rechecks > 0 and run.steps_done > 1
