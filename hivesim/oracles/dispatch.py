"""C12: independent eligibility filter + optimal assignment, evaluated at every invocation of the real Dispatcher."""
import itertools

import h3
import numpy as np
from scipy.optimize import linear_sum_assignment

from ..runner import Oracle, V
from ..adversary import act

MILE_TO_KM = 1.609344


def remaining_range_km(v, mech):
    """re-implemented from the mechatronics' raw attributes"""
    if hasattr(mech, "battery_capacity_kwh"):
        level = sum(e for et, e in v.energy.items() if et.name == "ELECTRIC")
        return level / (mech.nominal_watt_hour_per_mile * 0.001) * MILE_TO_KM
    level = sum(e for et, e in v.energy.items() if et.name == "GASOLINE")
    return level * mech.nominal_miles_per_gallon * MILE_TO_KM


def optimum(M):
    """minimum total cost of a maximum-size matching on a rectangular cost matrix"""
    n, m = M.shape
    if min(n, m) == 0:
        return 0.0
    if n <= 6 and m <= 6:
        best = None
        if n <= m:
            for cols in itertools.permutations(range(m), n):
                c = sum(M[i, cols[i]] for i in range(n))
                best = c if best is None or c < best else best
        else:
            for rows in itertools.permutations(range(n), m):
                c = sum(M[rows[j], j] for j in range(m))
                best = c if best is None or c < best else best
        return float(best)
    ri, ci = linear_sum_assignment(M)
    return float(M[ri, ci].sum())


class C12(Oracle):
    prop = "C12"

    def start(self, run, rp):
        self.invocations = 0
        self.nontriv = 0
        self.shapes = set()
        self.fleets = sorted(run.spec["fleets"]) if run.spec.get("fleets") else [None]
        return ()

    def step(self, ctx):
        out = []
        for name, sim, env, ins in ctx.spy:
            if name != "Dispatcher":
                continue
            out += self.check(sim, env, ins, ctx.k, ctx.run)
            if len(out) > 5:
                break
        return out

    def check(self, sim, env, ins, k, run):
        out = []
        cfg = env.config.dispatcher
        self.invocations += 1
        pairs = []
        for i in ins:
            if type(i).__name__ != "DispatchTripInstruction":
                out.append(V("C12", "foreign_instruction", k, f"the trip dispatcher returned {i}"))
                continue
            pairs.append((i.vehicle_id, i.request_id))
        # eligibility, independent of HIVE's filters
        elig_all = []
        for vid in sorted(sim.vehicles):
            v = sim.vehicles[vid]
            if act(v).lower() not in cfg.valid_dispatch_states:
                continue
            if not v.driver_state.available:
                continue
            mech = env.mechatronics[v.mechatronics_id]
            rng_km = remaining_range_km(v, mech)
            if act(v) == "ChargingBase" and rng_km < cfg.base_charging_range_km_threshold:
                continue
            if not rng_km > cfg.matching_range_km_threshold:
                continue
            elig_all.append(vid)
        for vid, rid in pairs:
            if vid not in sim.vehicles or rid not in sim.requests:
                out.append(V("C12", "unknown_entity", k, f"pair ({vid},{rid}) names an entity that does not exist"))
        pairs = [(v, r) for v, r in pairs if v in sim.vehicles and r in sim.requests]
        claimed = set()
        for f in self.fleets:
            if f is None:
                V_f = list(elig_all)
                R_f = [rid for rid in sorted(sim.requests) if sim.requests[rid].dispatched_vehicle is None]
                mine = list(pairs)
            else:
                V_f = [vid for vid in elig_all if f in sim.vehicles[vid].membership.memberships]
                R_f = [rid for rid in sorted(sim.requests)
                       if sim.requests[rid].dispatched_vehicle is None and f in sim.requests[rid].membership.memberships]
                mine = [(v, r) for (v, r) in pairs if f in sim.requests[r].membership.memberships]
            claimed.update(mine)
            vs = [v for v, _ in mine]
            rs = [r for _, r in mine]
            if len(set(vs)) != len(vs) or len(set(rs)) != len(rs):
                out.append(V("C12", "not_one_to_one", k, f"fleet {f}: pairs {mine} reuse a vehicle or a request"))
            ok = True
            for v, r in mine:
                if v not in V_f:
                    ok = False
                    veh = sim.vehicles[v]
                    why = ("not a member" if f is not None and f not in veh.membership.memberships else
                           "activity" if act(veh).lower() not in cfg.valid_dispatch_states else
                           "off shift" if not veh.driver_state.available else "range")
                    out.append(V("C12", "ineligible_vehicle", k,
                                 f"fleet {f}: vehicle {v} ({act(veh)}, fleets {sorted(veh.membership.memberships)}) paired with {r} but is not eligible: {why}",
                                 key=f"C12/ineligible_vehicle/{why}" + ("/public_vehicle" if why == "not a member" and not veh.membership.memberships else "")))
                if r not in R_f:
                    ok = False
                    out.append(V("C12", "ineligible_request", k, f"fleet {f}: request {r} paired with {v} but already has vehicle {sim.requests[r].dispatched_vehicle}"))
            want_n = min(len(V_f), len(R_f))
            if ok and len(mine) != want_n:
                out.append(V("C12", "size", k, f"fleet {f}: {len(mine)} pairs for {len(V_f)} eligible vehicles and {len(R_f)} open requests"))
                ok = False
            if V_f and R_f:
                self.shapes.add((min(len(V_f), 6), min(len(R_f), 6)))
                if len(V_f) >= 2 and len(R_f) >= 2:
                    self.nontriv += 1
                    run.probes["matching_at_least_2x2"] += 1
                if len(V_f) != len(R_f):
                    run.probes["rectangular_matching"] += 1
                M = np.array([[float(h3.h3_distance(sim.vehicles[v].position.geoid, sim.requests[r].position.geoid)) for r in R_f] for v in V_f])
                if len(set(M.flatten().tolist())) < M.size:
                    run.probes["tied_costs"] += 1
                if ok:
                    got = sum(M[V_f.index(v), R_f.index(r)] for v, r in mine)
                    opt = optimum(M)
                    if got != opt:
                        out.append(V("C12", "not_optimal", k, f"fleet {f}: total grid distance {got} but {opt} is possible ({len(V_f)}x{len(R_f)})"))
        if len({v for v, _ in pairs}) < len(pairs):
            run.probes["vehicle_in_two_fleets_matched_twice"] += 1
        stray = [p for p in pairs if p not in claimed]
        for v, r in stray:
            out.append(V("C12", "pair_outside_any_fleet", k, f"pair ({v},{r}): the request belongs to none of the fleets {self.fleets}"))
        return out

    def nontrivial(self, run):
        return self.nontriv > 0
