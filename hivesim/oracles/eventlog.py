"""C19: the written event.log and the summary reconciled with the state sequence (real EventfulHandler / StatsHandler)."""
import json
import os
import re
from collections import Counter, defaultdict

from ..runner import Oracle, V
from ..adversary import act

KNOWN_TYPES = {"add_request_event", "pickup_request_event", "dropoff_request_event", "cancel_request_event",
               "vehicle_charge_event", "vehicle_move_event", "station_load_event", "refuel_search_event",
               "driver_schedule_event"}
_TD = re.compile(r"^(?:(-?\d+) days?, )?(\d+):(\d\d):(\d\d(?:\.\d+)?)$")


def parse_timedelta(s):
    m = _TD.match(s.strip())
    if not m:
        return None
    d = int(m.group(1) or 0)
    return d * 86400 + int(m.group(2)) * 3600 + int(m.group(3)) * 60 + float(m.group(4))


class C19(Oracle):
    prop = "C19"

    def start(self, run, rp):
        self.seen = []  # per step: dict of facts seen in the state sequence
        self.timeout = run.spec["sim"]["request_cancel_time_seconds"]
        self.dt = run.spec["sim"]["timestep_duration_seconds"]
        self.out_dir = rp.e.config.scenario_output_directory
        self.pickups = 0
        return ()

    def step(self, ctx):
        prev, nxt = ctx.prev, ctx.nxt
        after_instr = ctx.applied[-1][2].vehicles if ctx.applied else prev.vehicles
        admitted = ctx.applied[-1][0].requests if ctx.applied else prev.requests
        facts = {"pickup": [], "dropoff": [], "cancel": [], "charge": {}, "moved": {}}
        for vid, v1 in nxt.vehicles.items():
            v0 = prev.vehicles.get(vid)
            if v0 is None:
                continue
            if act(v1) == "ServicingTrip":
                rid = v1.vehicle_state.request.id
                was = act(v0) == "ServicingTrip" and v0.vehicle_state.instance_id == v1.vehicle_state.instance_id
                if not was:
                    facts["pickup"].append((rid, vid))
                if len(v1.vehicle_state.route) == 0 and not (was and len(v0.vehicle_state.route) == 0):
                    facts["dropoff"].append((rid, vid))
            for et in v1.energy_gained:
                dg = v1.energy_gained[et] - v0.energy_gained[et]
                if dg != 0:
                    facts["charge"][vid] = facts["charge"].get(vid, 0.0) + dg
            dd = v1.distance_traveled_km - v0.distance_traveled_km
            if dd != 0:
                facts["moved"][vid] = dd
        picked = {rid for rid, _ in facts["pickup"]}
        for rid in set(prev.requests) | set(admitted):
            if rid not in nxt.requests and rid not in picked:
                q = admitted.get(rid) or prev.requests.get(rid)
                # cancellation runs before the vehicles act: a request whose time is up is cancelled, any other request
                # that left the waiting set was picked up -- by the vehicle that had arrived for it, even if that vehicle
                # then ran out of energy in the same step and shows no passenger at the end of it
                if ctx.T >= int(q.departure_time) + self.timeout:
                    facts["cancel"].append(rid)
                else:
                    who = [vid for vid, u in after_instr.items()
                           if act(u) == "DispatchTrip" and u.vehicle_state.request_id == rid and len(u.vehicle_state.route) == 0
                           and nxt.vehicles.get(vid) is not None and act(nxt.vehicles[vid]) == "OutOfService"]
                    facts["pickup"].append((rid, who[0] if len(who) == 1 else "?"))
                    ctx.run.probes["pickup_then_out_of_energy_same_step"] += 1
        for rid, vid in facts["pickup"]:
            if rid not in prev.requests:
                ctx.run.probes["same_step_pickup"] += 1
        if facts["pickup"] and (ctx.T // 86400) != (int(ctx.nxt.sim_time) // 86400) or (facts["pickup"] and ctx.T % 86400 < 1800 and ctx.k > 0):
            ctx.run.probes["pickup_near_midnight"] += 1
        self.seen.append(facts)
        self.pickups += len(facts["pickup"])
        return ()

    def closed(self, run, rp):
        out = []
        k_end = run.steps_done
        path = os.path.join(str(self.out_dir), "event.log")
        if not os.path.exists(path):
            return [V("C19", "no_event_log", k_end, "event.log was not written")]
        blocks = []
        cur = None
        with open(path) as f:
            for n, line in enumerate(f):
                try:
                    e = json.loads(line)
                except Exception:
                    out.append(V("C19", "unparsable_line", k_end, f"event.log line {n + 1} is not JSON: {line[:80]!r}"))
                    continue
                t = e.get("report_type")
                if t not in KNOWN_TYPES:
                    out.append(V("C19", "unknown_report_type", k_end, f"event.log line {n + 1} has report_type {t!r}"))
                    continue
                if t == "station_load_event":
                    if cur is None or cur["events"] or e["station_id"] in cur["load"]:
                        cur = {"load": {}, "events": [], "span": (e["sim_time_start"], e["sim_time_end"])}
                        blocks.append(cur)
                    cur["load"][e["station_id"]] = float(e["energy"])
                else:
                    if cur is None:
                        cur = {"load": {}, "events": [], "span": None}
                        blocks.append(cur)
                    cur["events"].append(e)
        if out:
            return out
        have_stations = bool(rp.s.stations)
        if have_stations:
            if len(blocks) != k_end:
                out.append(V("C19", "step_blocks", k_end, f"event.log has {len(blocks)} per-step station-load blocks for {k_end} steps"))
                return out
        else:
            # no stations: no block markers; events cannot be attributed to steps, only totals are reconciled
            blocks = None
        move = defaultdict(float)
        chg = defaultdict(float)
        adds = cancels = 0
        all_events = [e for b in blocks for e in b["events"]] if blocks is not None else []
        if blocks is None:
            with open(path) as f:
                all_events = [json.loads(l) for l in f]
        for e in all_events:
            t = e["report_type"]
            if t == "vehicle_move_event":
                move[e["vehicle_id"]] += float(e["distance_km"])
            elif t == "vehicle_charge_event":
                chg[e["vehicle_id"]] += float(e["energy"])
            elif t == "add_request_event":
                adds += 1
            elif t == "cancel_request_event":
                cancels += 1
            elif t == "pickup_request_event":
                w = parse_timedelta(e["wait_time_seconds"])
                if w is None or not (0 <= w <= self.timeout + self.dt):
                    out.append(V("C19", "wait_time", k_end,
                                 f"pickup of {e['request_id']} by {e['vehicle_id']} reports waiting time {e['wait_time_seconds']!r} (request_time {e['request_time']}, pickup_time {e['pickup_time']}); allowed [0, {self.timeout + self.dt}] s",
                                 key="C19/wait_time"))
        for vid, v in rp.s.vehicles.items():
            if abs(move[vid] - v.distance_traveled_km) > 1e-9 * max(1.0, v.distance_traveled_km):
                out.append(V("C19", "odometer", k_end, f"vehicle {vid}: move events sum to {move[vid]!r}, odometer {v.distance_traveled_km!r}"))
            g = sum(v.energy_gained.values())
            if abs(chg[vid] - g) > 1e-9 * max(1.0, g):
                out.append(V("C19", "energy_gained", k_end, f"vehicle {vid}: charge events sum to {chg[vid]!r}, energy gained {g!r}"))
        if blocks is not None:
            for k, (b, facts) in enumerate(zip(blocks, self.seen)):
                per = defaultdict(float)
                cnt = Counter()
                ev_pick, ev_drop, ev_cancel = [], [], []
                ev_charge = Counter()
                for e in b["events"]:
                    t = e["report_type"]
                    if t == "vehicle_charge_event":
                        per[e["station_id"]] += float(e["energy"])
                        ev_charge[e["vehicle_id"]] += 1
                    elif t == "pickup_request_event":
                        ev_pick.append((e["request_id"], e["vehicle_id"]))
                    elif t == "dropoff_request_event":
                        ev_drop.append((e["request_id"], e["vehicle_id"]))
                    elif t == "cancel_request_event":
                        ev_cancel.append(e["request_id"])
                for sid, val in b["load"].items():
                    if abs(val - per.get(sid, 0.0)) > 1e-9 * max(1.0, abs(val)):
                        out.append(V("C19", "station_load", k, f"station {sid}: reported load {val!r} but that step's charge events sum to {per.get(sid, 0.0)!r}"))
                for sid in per:
                    if sid not in b["load"]:
                        out.append(V("C19", "station_load_missing", k, f"station {sid} has charge events but no load report"))
                if sorted(b["load"]) != sorted(rp.s.stations):
                    out.append(V("C19", "station_load_set", k, f"load reported for {sorted(b['load'])}, stations are {sorted(rp.s.stations)}"))
                if sorted(ev_pick) != sorted(facts["pickup"]):
                    out.append(V("C19", "pickup_lines", k, f"pickup lines {sorted(ev_pick)} but the state shows pickups {sorted(facts['pickup'])}"))
                if sorted(ev_drop) != sorted(facts["dropoff"]):
                    out.append(V("C19", "dropoff_lines", k, f"drop-off lines {sorted(ev_drop)} but the state shows drop-offs {sorted(facts['dropoff'])}"))
                if sorted(ev_cancel) != sorted(facts["cancel"]):
                    out.append(V("C19", "cancel_lines", k, f"cancel lines {sorted(ev_cancel)} but the state shows cancellations {sorted(facts['cancel'])}"))
                if sorted(ev_charge.elements()) != sorted(facts["charge"]):
                    out.append(V("C19", "charge_lines", k, f"charge lines for {sorted(ev_charge.elements())} but the state shows charging of {sorted(facts['charge'])}"))
                if len(out) > 5:
                    break
        # summary
        spath = os.path.join(str(self.out_dir), "summary_stats.json")
        if os.path.exists(spath):
            with open(spath) as f:
                summ = json.load(f)
            want = (1 - cancels / adds) if adds else 0.0
            if abs(summ.get("requests_served_percent", -1) - want) > 1e-12:
                out.append(V("C19", "summary_served", k_end, f"summary says served {summ.get('requests_served_percent')!r}; {adds} add and {cancels} cancel lines give {want!r}"))
            tot = sum(move.values())
            if abs(summ.get("total_vkt", -1) - tot) > 1e-9 * max(1.0, tot):
                out.append(V("C19", "summary_vkt", k_end, f"summary total_vkt {summ.get('total_vkt')!r} but move lines sum to {tot!r}"))
        else:
            out.append(V("C19", "no_summary", k_end, "summary_stats.json was not written"))
        for h in rp.e.reporter.handlers:
            st = getattr(h, "stats", None)
            if st is not None and hasattr(st, "cancelled_requests"):
                if st.requests != adds or st.cancelled_requests != cancels:
                    out.append(V("C19", "summary_counts", k_end, f"summary counts requests={st.requests} cancelled={st.cancelled_requests}; log has {adds} add and {cancels} cancel lines"))
        run.scratch["c19_lines"] = len(all_events)
        return out


    def aborted(self, run, k, exc, closing=False):
        if not closing:
            return []
        # HIVE could not finish writing its outputs: there is no complete log and no summary to reconcile with the state
        return [V("C19", "outputs_not_written", k, f"closing the run (writing the log and the summary) stopped with {type(exc).__name__}: {exc}",
                  key=f"C19/outputs_not_written/{type(exc).__name__}")]

    def nontrivial(self, run):
        return run.scratch.get("c19_lines", 0) > 0 and self.pickups > 0
