"""C06: kinematic model of each traversal (at the recording wrapper around ``traverse``) and whole-journey checks."""
import math

from ..runner import Oracle, V
from .energy import step_cost_upper_bound, stored
from ..adversary import act, TRAVEL
from nrel.hive.reporting.report_type import ReportType as RT

CELL_KM = 0.0013  # diameter of one resolution-15 cell (edge ~0.51 m), generous


def _nz(links):
    return [l for l in links if l.start != l.end]


def _merged_ids(drv, rem):
    """link ids of driven ++ remaining with zero-length links dropped and a split link counted once"""
    out = []
    d, r = _nz(drv), _nz(rem)
    split = bool(d and r and d[-1].link_id == r[0].link_id and d[-1].end == r[0].start)
    out = [l.link_id for l in d] + [l.link_id for l in (r[1:] if split else r)]
    return out, split


def route_time_s(route):
    return sum(l.distance_km / l.speed_kmph * 3600.0 for l in route if l.speed_kmph > 0)


def check_traversal(route, dur, err, res, rn, k):
    out = []
    if err is not None or res is None:
        out.append(V("C06", "traverse_error", k, f"traverse failed: {err!r}"))
        return out, None
    drv, rem = tuple(res.experienced_route), tuple(res.remaining_route)
    if len(route) == 0:
        if drv or rem:
            out.append(V("C06", "moved_on_empty_route", k, "an empty route produced a traversal"))
        return out, None
    if route[0].start == route[-1].end and not drv and not rem:
        return out, None  # origin = destination: nothing to drive (HIVE treats it as arrived)
    connected = all(a.end == b.start for a, b in zip(route, route[1:]))
    ids_in = [l.link_id for l in _nz(route)]
    ids_out, split = _merged_ids(drv, rem)
    if ids_out != ids_in:
        # a zero-length *split* (driven part collapsed to a point): the split link shows up only in the remaining part
        out.append(V("C06", "link_sequence", k, f"driven ++ remaining = {ids_out} but the route was {ids_in}"))
    final_end = rem[-1].end if rem else (drv[-1].end if drv else None)
    if final_end is not None and final_end != route[-1].end:
        out.append(V("C06", "destination_changed", k, f"driven ++ remaining ends at {final_end}, the route ended at {route[-1].end}"))
    if drv and drv[0].start != route[0].start:
        out.append(V("C06", "start_changed", k, f"driven part starts at {drv[0].start}, the route started at {route[0].start}"))
    if not drv and rem and rem[0].start != route[0].start and _nz(route) and _nz(route)[0].start == route[0].start:
        out.append(V("C06", "start_changed", k, f"nothing driven but the remaining route starts at {rem[0].start}, not {route[0].start}"))
    if connected:
        for a, b in zip(_nz(drv), _nz(drv)[1:]):
            if a.end != b.start:
                out.append(V("C06", "driven_gap", k, f"driven links do not join: {a.end} -> {b.start}"))
        if drv and rem and drv[-1].end != rem[0].start:
            out.append(V("C06", "junction", k, f"driven part ends at {drv[-1].end} but the remaining part starts at {rem[0].start}"))
    # distance bookkeeping
    dist = sum(l.distance_km for l in drv)
    if abs(dist - res.traversal_distance_km) > 1e-12 * max(1.0, dist):
        out.append(V("C06", "distance_sum", k, f"reported traversal distance {res.traversal_distance_km!r} != sum of driven links {dist!r}"))
    # time: whole-second link times for fully driven links, real time for the split part
    t = 0.0
    slowest = None
    for i, l in enumerate(drv):
        gt = rn.link_from_link_id(l.link_id)
        sp = gt.speed_kmph if gt is not None else l.speed_kmph
        if sp <= 0:
            continue
        slowest = sp if slowest is None else min(slowest, sp)
        t_l = l.distance_km / sp * 3600.0
        is_split = split and i == len(drv) - 1
        t += t_l if is_split else math.floor(t_l)
    if drv and slowest:
        cell_t = CELL_KM / slowest * 3600.0
        if t > dur + cell_t + 1e-6:
            out.append(V("C06", "too_fast", k, f"driven part needs {t:.3f}s of link time in a {dur}-s step ({len(drv)} links, cell allowance {cell_t:.3f}s)"))
    return out, (drv, rem)


class C06(Oracle):
    prop = "C06"

    def start(self, run, rp):
        self.journeys = {}   # instance id -> (deadline step, vehicle)
        self.arrived = {}    # vehicle id -> instance id of a travelling activity with nothing left at the end of the previous step
        self.traversals = 0
        self.moves = 0
        self.completed = 0
        self.strict_plugs = bool(run.plan["run"].get("adv", {}).get("valid_plugs_only", True))
        return ()

    def step(self, ctx):
        out = []
        k, dt, run = ctx.k, ctx.dt, ctx.run
        prev, nxt = ctx.prev, ctx.nxt
        rn = nxt.road_network
        results = []
        if ctx.traversals is not None:
            for route, dur, err, res in ctx.traversals:
                vs, dr = check_traversal(route, dur, err, res, rn, k)
                out += vs
                self.traversals += 1
                if dr is not None:
                    results.append((route, dr[0], dr[1], res))
                    for l in route:
                        t_l = l.distance_km / l.speed_kmph * 3600.0 if l.speed_kmph > 0 else 0
                        if 0 < t_l < 1.0:
                            run.probes["sub_second_link"] += 1
                            break
                    if dr[0] and dr[1] and dr[0][-1].link_id == dr[1][0].link_id:
                        run.probes["partial_link_traversal"] += 1
                    if len(dr[0]) >= 3:
                        run.probes["three_links_in_one_step"] += 1
        moves = {}
        for r in ctx.reports_of(RT.VEHICLE_MOVE_EVENT):
            vid = r.report["vehicle_id"]
            if vid in moves:
                out.append(V("C06", "two_moves", k, f"vehicle {vid} has two move reports in one step"))
            moves[vid] = r.report
            if r.report["vehicle_state"] not in TRAVEL:
                out.append(V("C06", "move_in_nontravel", k, f"vehicle {vid} moved while {r.report['vehicle_state']}"))
        after_instr = ctx.applied[-1][2].vehicles if ctx.applied else None
        for vid, v1 in nxt.vehicles.items():
            v0 = prev.vehicles.get(vid)
            if v0 is None:
                continue
            dd = v1.distance_traveled_km - v0.distance_traveled_km
            md = float(moves[vid]["distance_km"]) if vid in moves else 0.0
            if abs(dd - md) > 1e-12 * max(1.0, abs(v1.distance_traveled_km)):
                out.append(V("C06", "odometer_vs_report", k, f"vehicle {vid} odometer grew by {dd!r}, move report says {md!r}"))
            if v1.position.geoid != v0.position.geoid:
                self.moves += 1
                if vid not in moves:
                    out.append(V("C06", "moved_without_report", k, f"vehicle {vid} changed position without a move report"))
            if dd < 0:
                out.append(V("C06", "odometer_decreased", k, f"vehicle {vid} odometer decreased"))
            # a vehicle changes position only while travelling: judged on its actual activity when the updates began (and, for a
            # vehicle that picked up in this step, on the activity it is in afterwards), not on what the move report claims
            if (v1.position.geoid != v0.position.geoid or dd > 0) and after_instr is not None:
                u_ = after_instr.get(vid)
                if u_ is not None and act(u_) not in TRAVEL and act(v1) not in TRAVEL:
                    out.append(V("C06", "moved_while_not_travelling", k, f"vehicle {vid} moved ({dd!r} km) while {act(u_)} -> {act(v1)}"))
            # match the recorded traversal of this vehicle: position = end of the driven part = start of the remaining part
            if vid in moves and results:
                a1 = act(v1)
                mine = [x for x in results if a1 in TRAVEL and tuple(v1.vehicle_state.route) == x[2] and x[1] and x[1][-1].end == v1.position.geoid]
                if len(mine) > 1:
                    # several vehicles reached the same place: the traversal of this vehicle is the one that was handed the
                    # very route object the vehicle held when the updates began; failing that, where it started
                    u0 = (ctx.applied[-1][2].vehicles.get(vid) if ctx.applied else v0) or v0
                    ru0 = getattr(u0.vehicle_state, "route", None)
                    exact = [x for x in mine if x[0] is ru0]
                    mine = exact or [x for x in mine if x[0][0].start == u0.position.geoid] or mine
                    if len(mine) > 1:
                        mine = [x for x in mine if abs(x[3].traversal_distance_km - dd) <= 1e-12 * max(1.0, dd)] or mine
                if not mine and a1 in TRAVEL:
                    out.append(V("C06", "position_not_at_junction", k, f"vehicle {vid} at {v1.position.geoid} with {len(v1.vehicle_state.route)} links left matches no traversal of this step"))
                elif mine:
                    x = mine[0]
                    if abs(x[3].traversal_distance_km - dd) > 1e-12 * max(1.0, dd):
                        out.append(V("C06", "odometer_vs_driven", k, f"vehicle {vid} odometer grew by {dd!r} but it drove {x[3].traversal_distance_km!r}"))
                    if x[2] and x[2][0].start != v1.position.geoid and v1.vehicle_state.route:
                        out.append(V("C06", "position_not_at_junction", k, f"vehicle {vid} at {v1.position.geoid} but its remaining route starts at {x[2][0].start}"))
            # progress / arrival, judged from the state right after this step's instructions were applied
            u = after_instr.get(vid) if after_instr is not None else v0
            if u is None:
                continue
            au, a1 = act(u), act(v1)
            if au in TRAVEL:
                same = a1 == au and v1.vehicle_state.instance_id == u.vehicle_state.instance_id
                ru = u.vehicle_state.route
                if len(ru) > 0 and same:
                    r1 = v1.vehicle_state.route
                    progressed = (v1.position.geoid != u.position.geoid or len(r1) < len(ru) or route_time_s(r1) < route_time_s(ru))
                    if not progressed:
                        out.append(V("C06", "no_progress", k, f"vehicle {vid} ({au}) with {len(ru)} links left made no progress in a {dt}-s step"))
                if len(ru) > 0 and a1 == "OutOfService" and v1.position.geoid == u.position.geoid:
                    # taken out of service by its own update, without moving: only a vehicle that lacks the energy for the step's
                    # leg may stop like that ("a travelling vehicle that has energy makes progress along its route every step")
                    bound = step_cost_upper_bound(u, ctx.env, dt)
                    ctx.run.probes["travelling_vehicle_stopped_for_lack_of_energy"] += 1
                    if bound is not None and stored(u) > 1.5 * bound + 1e-9:
                        out.append(V("C06", "stopped_with_energy", k,
                                     f"vehicle {vid} ({au}) holding {stored(u)!r} was taken out of service without moving; one step along its route costs at most {bound!r}"))
                if len(ru) == 0 and same:
                    # it had already arrived when the step's updates began and is still in the same activity
                    if not (au == "DispatchStation" and not self.strict_plugs):
                        out.append(V("C06", "stuck_after_arrival", k, f"vehicle {vid} ({au}) had no route left at the start of the update and is still {a1}"))
            # journeys
            if a1 in TRAVEL:
                iid = v1.vehicle_state.instance_id
                r1 = v1.vehicle_state.route
                if iid not in self.journeys and len(r1) > 0:
                    T = route_time_s(r1)
                    slow = min([l.speed_kmph for l in r1 if l.speed_kmph > 0] or [40.0])
                    n = math.ceil(T / dt) + 2
                    n = math.ceil((T + n * CELL_KM / slow * 3600.0) / dt) + 2
                    self.journeys[iid] = (k + n, vid, T)
                if len(r1) == 0 and iid in self.journeys:
                    self.journeys.pop(iid)
                    self.completed += 1
        live = {v.vehicle_state.instance_id for v in nxt.vehicles.values() if act(v) in TRAVEL}
        for iid, (dl, vid, T) in list(self.journeys.items()):
            if iid not in live:
                self.journeys.pop(iid)
                self.completed += 1
            elif k > dl:
                out.append(V("C06", "journey_too_long", k, f"vehicle {vid} still travelling a route valued at {T:.1f}s after its bound (step {dl})"))
                self.journeys.pop(iid)
        return out

    def nontrivial(self, run):
        return self.moves > 0 and (self.traversals > 0 or not run.plan["run"].get("recorder"))
