"""State-invariant oracles evaluated on the entity collections after every step: C02 C07 C08 C10 C17.

Independent of the code they judge: they read raw fields (counts, cells, membership sets, routes) and re-implement every
predicate; the only h3 call is the library itself.
"""
from collections import Counter, defaultdict

import h3

from ..runner import Oracle, V
from ..adversary import act, TRAVEL
from nrel.hive.reporting.report_type import ReportType as RT


def access(entity_membership, vehicle_membership):
    """entities without membership are open to all; otherwise the two membership sets must intersect"""
    em = set(entity_membership.memberships)
    return (not em) or bool(em & set(vehicle_membership.memberships))


# ---------------------------------------------------------------------------------------------------------
def c02_check(sim, k, totals=None):
    out = []
    charging = Counter()
    queued = Counter()
    parked = Counter()
    for v in sim.vehicles.values():
        s = v.vehicle_state
        a = type(s).__name__
        if a == "ChargingStation":
            charging[(s.station_id, s.charger_id)] += 1
            st = sim.stations.get(s.station_id)
            if st is not None and s.charger_id not in st.state:
                # installed = free = 0 for a plug type the station does not have: nobody can be charging on it
                out.append(V("C02", "charging_on_absent_plug", k, f"vehicle {v.id} is charging at station {s.station_id} on plug type {s.charger_id}, which is not installed there"))
        elif a == "ChargeQueueing":
            queued[(s.station_id, s.charger_id)] += 1
        elif a == "ChargingBase":
            parked[s.base_id] += 1
            b = sim.bases.get(s.base_id)
            if b is not None and b.station_id:
                charging[(b.station_id, s.charger_id)] += 1
                st = sim.stations.get(b.station_id)
                if st is not None and s.charger_id not in st.state:
                    out.append(V("C02", "charging_on_absent_plug", k, f"vehicle {v.id} is charging at base {s.base_id} through station {b.station_id} on plug type {s.charger_id}, which is not installed there"))
        elif a == "ReserveBase":
            parked[s.base_id] += 1
    for sid, st in sim.stations.items():
        for cid, cs in st.state.items():
            tot, free, q = cs.total_chargers, cs.available_chargers, cs.enqueued_vehicles
            if totals is not None and totals.get(("s", sid, cid)) != tot:
                out.append(V("C02", "installed_changed", k, f"station {sid} plug {cid}: installed {totals.get(('s', sid, cid))} -> {tot}"))
            if not (0 <= free <= tot):
                out.append(V("C02", "plug_bounds", k, f"station {sid} plug {cid}: free={free} installed={tot}"))
            if tot - free != charging[(sid, cid)]:
                out.append(V("C02", "plug_count", k, f"station {sid} plug {cid}: installed-free={tot - free} but {charging[(sid, cid)]} vehicles charging"))
            if q != queued[(sid, cid)]:
                out.append(V("C02", "queue_count", k, f"station {sid} plug {cid}: waiting counter={q} but {queued[(sid, cid)]} vehicles queueing"))
    for bid, b in sim.bases.items():
        if totals is not None and totals.get(("b", bid)) != b.total_stalls:
            out.append(V("C02", "installed_changed", k, f"base {bid}: stalls {totals.get(('b', bid))} -> {b.total_stalls}"))
        if not (0 <= b.available_stalls <= b.total_stalls):
            out.append(V("C02", "stall_bounds", k, f"base {bid}: free={b.available_stalls} total={b.total_stalls}"))
        if b.total_stalls - b.available_stalls != parked[bid]:
            out.append(V("C02", "stall_count", k, f"base {bid}: total-free={b.total_stalls - b.available_stalls} but {parked[bid]} vehicles parked/charging"))
    return out


class C02(Oracle):
    prop = "C02"

    def start(self, run, rp):
        t = {}
        for sid, st in rp.s.stations.items():
            for cid, cs in st.state.items():
                t[("s", sid, cid)] = cs.total_chargers
        for bid, b in rp.s.bases.items():
            t[("b", bid)] = b.total_stalls
        self.totals = t
        self.used = False
        return c02_check(rp.s, -1, t)

    def step(self, ctx):
        out = c02_check(ctx.nxt, ctx.k, self.totals)
        run = ctx.run
        q = Counter()
        for v in ctx.nxt.vehicles.values():
            a = act(v)
            if a in ("ChargingStation", "ChargeQueueing", "ChargingBase", "ReserveBase"):
                self.used = True
            if a == "ChargeQueueing":
                q[(v.vehicle_state.station_id, v.vehicle_state.charger_id)] += 1
        if q and max(q.values()) >= 2:
            run.probes["queue_len>=2"] += 1
        if ctx.applied:
            sim_in, instrs, sim_out = ctx.applied[-1]
            # the state right after the instructions were applied (before the vehicle updates) must be consistent too
            out += [V(x["property"], x["rule"] + "@after_instructions", ctx.k, x["msg"]) for x in c02_check(sim_out, ctx.k, self.totals)]
            plug_takers = Counter()
            for ins in instrs:
                if ctx.accepted.get(ins.vehicle_id) and type(ins).__name__ in ("ChargeStationInstruction", "DispatchStationInstruction"):
                    v1 = sim_out.vehicles[ins.vehicle_id]
                    if act(v1) == "ChargingStation":
                        plug_takers[(v1.vehicle_state.station_id, v1.vehicle_state.charger_id)] += 1
            if plug_takers and max(plug_takers.values()) >= 2:
                run.probes["two_vehicles_same_plug_same_step"] += 1
        if ctx.fired:
            run.probes["half_failed_transition"] += 1
        return out

    def nontrivial(self, run):
        return self.used


# ---------------------------------------------------------------------------------------------------------
def c07_check(sim, k):
    out = []
    for v in sim.vehicles.values():
        s = v.vehicle_state
        a = type(s).__name__
        if a in ("ChargingStation", "ChargeQueueing"):
            st = sim.stations.get(s.station_id)
            if st is None or st.position.geoid != v.position.geoid:
                out.append(V("C07", "not_at_station", k, f"vehicle {v.id} is {a} at station {s.station_id} but stands at {v.position.geoid}, station at {st.position.geoid if st else None}",
                             key=f"C07/not_at_station/{a}"))
        elif a in ("ReserveBase", "ChargingBase"):
            b = sim.bases.get(s.base_id)
            if b is None or b.position.geoid != v.position.geoid:
                out.append(V("C07", "not_at_base", k, f"vehicle {v.id} is {a} at base {s.base_id} but stands at {v.position.geoid}, base at {b.position.geoid if b else None}",
                             key=f"C07/not_at_base/{a}"))
        elif a in TRAVEL:
            route = s.route
            if len(route) > 0:
                if route[0].start != v.position.geoid:
                    out.append(V("C07", "route_start", k, f"vehicle {v.id} ({a}) stands at {v.position.geoid} but its route starts at {route[0].start}"))
                tgt = None
                if a == "DispatchTrip":
                    r = sim.requests.get(s.request_id)
                    tgt = r.position.geoid if r is not None else None
                elif a == "DispatchStation":
                    st = sim.stations.get(s.station_id)
                    tgt = st.position.geoid if st is not None else None
                elif a == "DispatchBase":
                    b = sim.bases.get(s.base_id)
                    tgt = b.position.geoid if b is not None else None
                elif a == "ServicingTrip":
                    tgt = s.request.destination_position.geoid
                if tgt is not None and route[-1].end != tgt:
                    out.append(V("C07", "route_end", k, f"vehicle {v.id} ({a}) route ends at {route[-1].end} but its target is at {tgt}"))
            else:
                # route exhausted: the vehicle is at the entity it was sent to
                tgt = None
                if a == "DispatchTrip":
                    r = sim.requests.get(s.request_id)
                    tgt = r.position.geoid if r is not None else None
                elif a == "DispatchStation":
                    st = sim.stations.get(s.station_id)
                    tgt = st.position.geoid if st is not None else None
                elif a == "DispatchBase":
                    b = sim.bases.get(s.base_id)
                    tgt = b.position.geoid if b is not None else None
                elif a == "ServicingTrip":
                    tgt = s.request.destination_position.geoid
                if tgt is not None and tgt != v.position.geoid:
                    out.append(V("C07", "exhausted_route_elsewhere", k, f"vehicle {v.id} ({a}) has no route left, stands at {v.position.geoid}, target at {tgt}"))
    return out


class C07(Oracle):
    prop = "C07"

    def start(self, run, rp):
        self.reqs = {r["id"]: r for r in run.spec["requests"]}
        self.seen = set()
        return c07_check(rp.s, -1)

    def step(self, ctx):
        out = c07_check(ctx.nxt, ctx.k)
        for v in ctx.nxt.vehicles.values():
            self.seen.add(act(v))
        # a trip is started only at the origin and ended only at the destination
        for r in ctx.reports_of(RT.PICKUP_REQUEST_EVENT):
            rid = r.report["request_id"]
            q = ctx.prev.requests.get(rid) or ctx.rp_before.s.requests.get(rid)
            origin = q.position.geoid if q is not None else None
            if origin is None:
                # admitted and picked up in the same step: take the origin from the input, snapped by the network
                rs = self.reqs.get(rid)
                if rs is not None:
                    pos = ctx.nxt.road_network.position_from_geoid(rs["o"])
                    origin = pos.geoid if pos is not None else None
            if origin is not None and r.report["geoid"] != origin:
                out.append(V("C07", "pickup_elsewhere", ctx.k, f"request {rid} picked up at {r.report['geoid']} but its origin is {origin}"))
        for r in ctx.reports_of(RT.DROPOFF_REQUEST_EVENT):
            rid = r.report["request_id"]
            vid = r.report["vehicle_id"]
            v0 = ctx.prev.vehicles.get(vid)
            dest = None
            if v0 is not None and act(v0) == "ServicingTrip" and v0.vehicle_state.request.id == rid:
                dest = v0.vehicle_state.request.destination_position.geoid
            else:
                rs = self.reqs.get(rid)
                if rs is not None:
                    pos = ctx.nxt.road_network.position_from_geoid(rs["d"])
                    dest = pos.geoid if pos is not None else None
            v1 = ctx.nxt.vehicles.get(vid)
            if dest is not None and (r.report["geoid"] != dest or (v1 is not None and v1.position.geoid != dest)):
                out.append(V("C07", "dropoff_elsewhere", ctx.k, f"request {rid} dropped off at {r.report['geoid']} (vehicle at {v1.position.geoid if v1 else None}) but its destination is {dest}"))
        if ctx.run.stats.get("bad_target_remote"):
            ctx.run.probes["remote_target_tried"] = ctx.run.stats["bad_target_remote"]
        return out

    def nontrivial(self, run):
        return len(self.seen) >= 3


# ---------------------------------------------------------------------------------------------------------
def c08_check(sim, k):
    out = []
    res = sim.sim_h3_search_resolution
    for ents, loc, srch, nm in ((sim.vehicles, sim.v_locations, sim.v_search, "vehicle"),
                                (sim.requests, sim.r_locations, sim.r_search, "request"),
                                (sim.stations, sim.s_locations, sim.s_search, "station"),
                                (sim.bases, sim.b_locations, sim.b_search, "base")):
        el = defaultdict(set)
        es = defaultdict(set)
        for i, e in ents.items():
            if e.id != i:
                out.append(V("C08", "id_mismatch", k, f"{nm} stored under {i} has id {e.id}"))
            g = e.position.geoid
            el[g].add(i)
            es[h3.h3_to_parent(g, res)].add(i)
        got_l = {c: set(x) for c, x in loc.items()}
        got_s = {c: set(x) for c, x in srch.items()}
        for label, got, want in (("location", got_l, dict(el)), ("search", got_s, dict(es))):
            if got != want:
                missing = {c: sorted(want[c] - got.get(c, set())) for c in want if want[c] - got.get(c, set())}
                stale = {c: sorted(got[c] - want.get(c, set())) for c in got if got[c] - want.get(c, set())}
                empty = sorted(c for c in got if not got[c])
                out.append(V("C08", f"{label}_index", k, f"{nm} {label} index: missing={missing} stale={stale} empty_cells={empty}",
                             key=f"C08/{label}_index/{nm}"))
    return out


class C08(Oracle):
    prop = "C08"

    def start(self, run, rp):
        self.fixed = {("s", i): s.position.geoid for i, s in rp.s.stations.items()}
        self.fixed.update({("b", i): b.position.geoid for i, b in rp.s.bases.items()})
        self.moves = 0
        return c08_check(rp.s, -1)

    def step(self, ctx):
        out = c08_check(ctx.nxt, ctx.k)
        if ctx.applied:
            out += [V("C08", x["rule"] + "@after_instructions", ctx.k, x["msg"], key=x["key"]) for x in c08_check(ctx.applied[-1][2], ctx.k)]
        for i, s in ctx.nxt.stations.items():
            if self.fixed.get(("s", i), s.position.geoid) != s.position.geoid:
                out.append(V("C08", "station_moved", ctx.k, f"station {i} moved"))
        for i, b in ctx.nxt.bases.items():
            if self.fixed.get(("b", i), b.position.geoid) != b.position.geoid:
                out.append(V("C08", "base_moved", ctx.k, f"base {i} moved"))
        res = ctx.nxt.sim_h3_search_resolution
        for vid, v1 in ctx.nxt.vehicles.items():
            v0 = ctx.prev.vehicles.get(vid)
            if v0 is not None and v0.position.geoid != v1.position.geoid:
                self.moves += 1
                if h3.h3_to_parent(v0.position.geoid, res) != h3.h3_to_parent(v1.position.geoid, res):
                    ctx.run.probes["moved_across_search_cells"] += 1
        return out

    def nontrivial(self, run):
        return self.moves > 0


# ---------------------------------------------------------------------------------------------------------
def c10_state_check(sim, k):
    out = []
    for v in sim.vehicles.values():
        s = v.vehicle_state
        a = type(s).__name__
        targets = []
        if a in ("DispatchStation", "ChargingStation", "ChargeQueueing"):
            targets.append(("station", s.station_id, sim.stations.get(s.station_id)))
        if a in ("DispatchBase", "ReserveBase", "ChargingBase"):
            b = sim.bases.get(s.base_id)
            targets.append(("base", s.base_id, b))
            if a == "ChargingBase" and b is not None and b.station_id:
                targets.append(("station", b.station_id, sim.stations.get(b.station_id)))
        if a == "DispatchTrip":
            targets.append(("request", s.request_id, sim.requests.get(s.request_id)))
        if a == "ServicingTrip":
            targets.append(("request", s.request.id, s.request))
        for kind, tid, t in targets:
            if t is not None and not access(t.membership, v.membership):
                out.append(V("C10", "no_access", k, f"vehicle {v.id} {sorted(v.membership.memberships)} is {a} with {kind} {tid} {sorted(t.membership.memberships)}",
                             key=f"C10/no_access/{a}/{kind}"))
    return out


class C10(Oracle):
    prop = "C10"

    def start(self, run, rp):
        # restricted entities exist with a fleets file, and also without one: a human driver's home base is made private to them
        self.fleet_world = bool(run.spec.get("fleets")) or any(
            e.membership.memberships for coll in (rp.s.stations, rp.s.bases, rp.s.requests) for e in coll.values())
        if not run.spec.get("fleets") and self.fleet_world:
            run.probes["private_home_base_without_fleets_file"] += 1
        self.pairs = 0
        self.req_fleet = {r["id"]: r.get("fleet") for r in run.spec.get("requests") or ()}
        # (the runner ignores what start() returns: findings on the loaded state are handed over with the first step)
        self.pending = self._as_assigned(run.spec, rp.s)
        return ()

    @staticmethod
    def _as_assigned(spec, sim):
        """the memberships the loaded entities carry are the ones the scenario assigned: every fleet an entity is listed under in the
        fleets file is in its membership (the loader may add private home-base ids, never drop a fleet) -- otherwise every later
        'access granted' is judged against a membership the user never wrote"""
        out = []
        for kind, coll in (("vehicles", sim.vehicles), ("stations", sim.stations), ("bases", sim.bases)):
            for name, members in sorted((spec.get("fleets") or {}).items()):
                for eid in members.get(kind) or ():
                    e = coll.get(eid)
                    if e is not None and name not in e.membership.memberships:
                        out.append(V("C10", "membership_not_as_assigned", -1,
                                     f"{kind[:-1]} {eid} is listed under fleet {name} in the fleets file but carries {sorted(e.membership.memberships)}"))
        # private home bases: a human driver's vehicle, its home base and the station that base charges through share the id
        # <vehicle>_private_<base>.  When several drivers name one base (or two bases one station) only one of their ids survives
        # on the base / station in this tree (seen, not counted: 11.2), so for those the rule asks for at least one of them.
        homes = {}
        for vid, v in sorted(sim.vehicles.items()):
            b = getattr(v.driver_state, "home_base_id", None)
            if b is None or b not in sim.bases:
                continue
            pid = f"{vid}_private_{b}"
            homes.setdefault(b, []).append(pid)
            if pid not in v.membership.memberships:
                out.append(V("C10", "membership_not_as_assigned", -1, f"vehicle {vid} with home base {b} does not carry {pid}: {sorted(v.membership.memberships)}"))
        by_station = {}
        for b, pids in sorted(homes.items()):
            base = sim.bases[b]
            if not set(pids) & set(base.membership.memberships):
                out.append(V("C10", "membership_not_as_assigned", -1, f"home base {b} carries none of {pids}: {sorted(base.membership.memberships)}"))
            if base.station_id is not None and base.station_id in sim.stations:
                by_station.setdefault(base.station_id, []).extend(pids)
        for sid, pids in sorted(by_station.items()):
            if not set(pids) & set(sim.stations[sid].membership.memberships):
                out.append(V("C10", "membership_not_as_assigned", -1, f"station {sid} of a private home base carries none of {pids}: {sorted(sim.stations[sid].membership.memberships)}"))
        return out

    def step(self, ctx):
        out = c10_state_check(ctx.nxt, ctx.k)
        if self.pending:
            out += [V("C10", "membership_not_as_assigned", ctx.k, x["msg"]) for x in self.pending]
            self.pending = []
        for rid, r in ctx.nxt.requests.items():
            if rid not in ctx.prev.requests and rid in self.req_fleet:
                want = {self.req_fleet[rid]} if self.req_fleet[rid] else set()
                if set(r.membership.memberships) != want:
                    out.append(V("C10", "membership_not_as_assigned", ctx.k,
                                 f"request {rid} is assigned to {sorted(want)} in the input but carries {sorted(r.membership.memberships)}"))
        if ctx.applied:
            out += [V("C10", "no_access@after_instructions", ctx.k, x["msg"], key=x["key"]) for x in c10_state_check(ctx.applied[-1][2], ctx.k)]
        for name, sim, env, ins in ctx.spy:
            for i in ins:
                v = sim.vehicles.get(i.vehicle_id)
                cname = type(i).__name__
                if v is None:
                    continue
                if cname == "DispatchTripInstruction":
                    r = sim.requests.get(i.request_id)
                    self.pairs += 1
                    if r is not None and not access(r.membership, v.membership):
                        out.append(V("C10", "dispatcher_pairs_no_access", ctx.k,
                                     f"{name} paired vehicle {v.id} {sorted(v.membership.memberships)} with request {r.id} {sorted(r.membership.memberships)}",
                                     key="C10/dispatcher_pairs_no_access/" + ("public_vehicle" if not v.membership.memberships else "member_vehicle")))
                elif cname == "DispatchStationInstruction":
                    st = sim.stations.get(i.station_id)
                    self.pairs += 1
                    if st is not None and not access(st.membership, v.membership):
                        out.append(V("C10", "manager_pairs_no_access", ctx.k,
                                     f"{name} sent vehicle {v.id} {sorted(v.membership.memberships)} to station {st.id} {sorted(st.membership.memberships)}"))
        if ctx.run.stats.get("bad_fleet"):
            ctx.run.probes["bad_fleet_rejected"] = ctx.run.stats["bad_fleet"]
        return out

    def nontrivial(self, run):
        return self.fleet_world and (self.pairs > 0 or run.stats.get("instr_accepted", 0) > 0)


# ---------------------------------------------------------------------------------------------------------
def c17_check(sim, k):
    out = []
    for r in sim.requests.values():
        if r.dispatched_vehicle is not None:
            v = sim.vehicles.get(r.dispatched_vehicle)
            ok = v is not None and type(v.vehicle_state).__name__ == "DispatchTrip" and v.vehicle_state.request_id == r.id
            if not ok:
                out.append(V("C17", "stale_record", k,
                             f"request {r.id} records vehicle {r.dispatched_vehicle} which is {act(v) if v else 'absent'}"
                             + (f" (to {v.vehicle_state.request_id})" if v is not None and act(v) == "DispatchTrip" else ""),
                             request=r.id, vehicle=r.dispatched_vehicle))
    return out


class C17(Oracle):
    prop = "C17"

    def start(self, run, rp):
        gens = run.plan["run"].get("generators")
        self.builtin_only = gens is None or not any(g.startswith("adv") for g in gens)
        self.assigned = 0
        return c17_check(rp.s, -1)

    def step(self, ctx):
        out = c17_check(ctx.nxt, ctx.k)
        if ctx.applied:
            out += [V("C17", "stale_record@after_instructions", ctx.k, x["msg"]) for x in c17_check(ctx.applied[-1][2], ctx.k)]
        heading = Counter()
        for v in ctx.nxt.vehicles.values():
            if act(v) == "DispatchTrip":
                heading[v.vehicle_state.request_id] += 1
                self.assigned += 1
        if self.builtin_only:
            for rid, n in heading.items():
                if n > 1 and rid in ctx.nxt.requests:
                    out.append(V("C17", "two_vehicles_one_request", ctx.k, f"{n} vehicles travel to request {rid} under the built-in dispatcher"))
        # the built-in dispatcher itself never sends a second vehicle to a request somebody is already travelling to
        # (whoever else is instructing vehicles in this run)
        for name, sim, env, ins in ctx.spy:
            if name != "Dispatcher":
                continue
            under_way = {}
            for v in sim.vehicles.values():
                if act(v) == "DispatchTrip":
                    under_way.setdefault(v.vehicle_state.request_id, []).append(v.id)
            for i in ins:
                rid = getattr(i, "request_id", None)
                others = [x for x in under_way.get(rid, ()) if x != i.vehicle_id]
                q = sim.requests.get(rid)
                if others and q is not None and q.dispatched_vehicle in others:
                    out.append(V("C17", "dispatcher_sends_second_vehicle", ctx.k,
                                 f"the built-in dispatcher sent {i.vehicle_id} to request {rid} while {others} is already travelling to it (recorded vehicle {q.dispatched_vehicle})"))
        # cleared records: a vehicle that left DispatchTrip while the request still waits
        for vid, v0 in ctx.prev.vehicles.items():
            if act(v0) == "DispatchTrip":
                v1 = ctx.nxt.vehicles.get(vid)
                rid = v0.vehicle_state.request_id
                if v1 is not None and rid in ctx.nxt.requests and not (act(v1) == "DispatchTrip" and v1.vehicle_state.request_id == rid):
                    ctx.run.probes["left_dispatch_while_request_waits"] += 1
                    if act(v1) == "OutOfService":
                        ctx.run.probes["out_of_energy_while_dispatched"] += 1
        return out

    def nontrivial(self, run):
        return self.assigned > 0
