"""C09: all-or-nothing application of single instructions (enumerated per visited state) and precedence between
competing generators; plus an enumeration mode that lets C02/C07/C10/C17 judge every accepted single instruction."""
from ..runner import Oracle, V, EXPECT
from ..adversary import act, KINDS, KIND_OF_CLASS, build_instruction
from ..fingerprint import sim_canon, digest, first_difference
from .state import c02_check, c07_check, c08_check, c10_state_check, c17_check

from nrel.hive.state.simulation_state.update.step_simulation_ops import apply_instructions

_FIELDS = ("stations", "bases", "vehicles", "requests", "v_locations", "r_locations", "s_locations", "b_locations",
           "v_search", "r_search", "s_search", "b_search", "sim_time", "sim_timestep_duration_seconds", "road_network")


def world_unchanged(a, b):
    """fast path: persistent maps untouched by identity; otherwise compare canonical forms (instance ids ignored)"""
    if all(getattr(a, f) is getattr(b, f) for f in _FIELDS):
        return True, None
    ca, cb = sim_canon(a, drop_ids=True, with_applied=False), sim_canon(b, drop_ids=True, with_applied=False)
    if ca == cb:
        return True, None
    return False, first_difference(ca, cb)


def _vkey(x):
    """identity of an inconsistency independent of what the vehicles involved are doing right now"""
    a = x.get("attrs") or {}
    if x["rule"].startswith("stale_record"):
        return (x["rule"], a.get("request"), a.get("vehicle"))
    return (x["rule"], x["msg"])


def enumerate_instructions(sim, env, extra_cells, max_per_vehicle=None, rng=None):
    """every instruction kind x every vehicle x every candidate target (existing, missing but well-formed, every plug type)"""
    out = []
    chargers = sorted(env.chargers)
    for vid in sorted(sim.vehicles):
        mine = [{"i": "Idle", "v": vid, "a": {}}, {"i": "OutOfService", "v": vid, "a": {}}]
        for r in sorted(sim.requests) + ["r_missing"]:
            mine.append({"i": "DispatchTrip", "v": vid, "a": {"request_id": r}})
        for s in sorted(sim.stations) + ["s_missing"]:
            for c in chargers:
                mine.append({"i": "DispatchStation", "v": vid, "a": {"station_id": s, "charger_id": c}})
                mine.append({"i": "ChargeStation", "v": vid, "a": {"station_id": s, "charger_id": c}})
        for b in sorted(sim.bases) + ["b_missing"]:
            mine.append({"i": "DispatchBase", "v": vid, "a": {"base_id": b}})
            mine.append({"i": "ReserveBase", "v": vid, "a": {"base_id": b}})
            for c in chargers:
                mine.append({"i": "ChargeBase", "v": vid, "a": {"base_id": b, "charger_id": c}})
        for cell in extra_cells[:3]:
            pos = sim.road_network.position_from_geoid(cell)
            if pos is not None:
                mine.append({"i": "Reposition", "v": vid, "a": {"destination": pos.link_id}})
        if max_per_vehicle and rng is not None and len(mine) > max_per_vehicle:
            mine = rng.sample(mine, max_per_vehicle)
        out += mine
    return out


class Enumerate(Oracle):
    """at sampled steps apply every candidate instruction ALONE to the reached state with the real apply_instructions"""

    def __init__(self, prop="C09", every=7, offset=3):
        self.prop = prop
        self.every = every
        self.offset = offset

    def start(self, run, rp):
        self.count = 0
        self.states = 0
        self.half_way = 0
        self.faults = False
        self.fault_budget = 0
        if self.prop == "C09" and run.plan["run"].get("enum_faults"):
            from .. import seams
            self.faults = bool(seams.install_buggify())
        self.triples = set()
        self.cells = sorted({v["cell"] for v in run.spec["vehicles"]} | {r["d"] for r in run.spec["requests"]})
        return ()

    def step(self, ctx):
        if ctx.k % self.every != self.offset % self.every:
            return ()
        return self.enumerate(ctx.nxt, ctx.env, ctx.k, ctx.run)

    def enumerate(self, sim, env, k, run):
        out = []
        prop = self.prop
        self.states += 1
        self.fault_budget = 120  # injected-failure applications per visited state
        if self.faults:
            run.probes["half_failed_single_instruction"] = self.half_way
        base = {"C02": c02_check, "C07": c07_check, "C10": c10_state_check, "C17": c17_check}
        # only what an instruction newly breaks is its fault: inconsistencies already present in the visited state are not
        if prop == "C09":
            before = {_vkey(x) for x in c02_check(sim, k) + c08_check(sim, k) + c17_check(sim, k)}
        else:
            before = {_vkey(x) for x in base[prop](sim, k)}
        for op in enumerate_instructions(sim, env, self.cells):
            ins = build_instruction(op)
            after = apply_instructions(sim, env, (ins,))
            self.count += 1
            v0 = sim.vehicles[ins.vehicle_id]
            v1 = after.vehicles.get(ins.vehicle_id)
            changed = v1 is not None and v1.vehicle_state is not v0.vehicle_state
            accepted = changed and act(v1) in EXPECT[op["i"]]
            self.triples.add((act(v0), op["i"], accepted))
            run.sigs.add((act(v0), op["i"], accepted))
            if prop == "C09":
                if not accepted:
                    same, diff = world_unchanged(sim, after)
                    if not same:
                        out.append(V("C09", "rejected_but_changed", k,
                                     f"{op['i']}{op['a']} for {ins.vehicle_id} ({act(v0)}) was not carried out but the world changed: {diff}",
                                     key=f"C09/rejected_but_changed/{act(v0)}/{op['i']}"))
                else:
                    # the instructed activity with the instructed target
                    st1 = v1.vehicle_state
                    for f, val in op["a"].items():
                        if f != "destination" and hasattr(st1, f) and getattr(st1, f) != val:
                            out.append(V("C09", "accepted_other_target", k, f"{op['i']}{op['a']} for {ins.vehicle_id} accepted but the vehicle's activity names {f}={getattr(st1, f)!r}"))
                    # all side effects present: counts, indexes and assignment records are consistent on the result
                    bad = [x for x in c02_check(after, k) + c08_check(after, k) + c17_check(after, k) if _vkey(x) not in before]
                    if bad:
                        out.append(V("C09", "accepted_incomplete", k,
                                     f"{op['i']}{op['a']} for {ins.vehicle_id} ({act(v0)}) accepted but: {bad[0]['msg']}",
                                     key=f"C09/accepted_incomplete/{act(v0)}/{op['i']}/{bad[0]['rule']}"))
                    # nobody else was touched
                    for vid, w in after.vehicles.items():
                        if vid != ins.vehicle_id and w is not sim.vehicles[vid]:
                            out.append(V("C09", "other_vehicle_touched", k, f"{op['i']} for {ins.vehicle_id} changed vehicle {vid}"))
                    # the transition fails half-way: inject a failure at every state-update call the accepted instruction
                    # makes (site x occurrence); the outcome must be all (as without the fault) or nothing
                    if self.faults and self.fault_budget > 0:
                        out += self._half_way(sim, env, ins, op, after, k, run)
            elif accepted:
                for x in base[prop](after, k):
                    if _vkey(x) in before:
                        continue
                    x["rule"] = x["rule"] + "@single_instruction"
                    x["msg"] = f"after {op['i']}{op['a']} for {ins.vehicle_id} ({act(v0)}): " + x["msg"]
                    out.append(x)
            if len(out) > 5:
                break
        return out

    def nontrivial(self, run):
        return self.count > 0


def _half_way_impl(self, sim, env, ins, op, good, k, run):
    from .. import seams
    out = []
    good_c = None
    for site in seams.SITES:
        for n in range(3):
            if self.fault_budget <= 0:
                return out
            seams.BUGGIFY.arm({site: {n}})
            try:
                res = apply_instructions(sim, env, (ins,))
            finally:
                fired = seams.BUGGIFY.disarm()
            if not fired:
                break  # this site is not reached (that often) by this transition
            self.fault_budget -= 1
            self.half_way += 1
            run.stats["injected_update_failure[%s]" % site] += 1
            same, _ = world_unchanged(sim, res)
            if same:
                continue
            if good_c is None:
                good_c = sim_canon(good, drop_ids=True, with_applied=False)
            if sim_canon(res, drop_ids=True, with_applied=False) == good_c:
                continue  # the failing call was outside the transition proper (e.g. a retried update)
            bad = [x for x in c02_check(res, k) + c08_check(res, k) + c17_check(res, k)]
            out.append(V("C09", "half_applied", k,
                         f"{op['i']}{op['a']} for {ins.vehicle_id} with a failure injected at {site}#{n}: the world is neither unchanged nor fully updated"
                         + (f" ({bad[0]['msg']})" if bad else ""), key=f"C09/half_applied/{op['i']}/{site}"))
    return out


Enumerate._half_way = _half_way_impl


class C09Precedence(Oracle):
    prop = "C09"

    def start(self, run, rp):
        self.competed = 0
        self.steps = 0
        self.folds = 0
        return ()

    def step(self, ctx):
        out = []
        if not ctx.applied:
            return out
        k = ctx.k
        sim_in, final, sim_out = ctx.applied[-1]
        self.steps += 1
        key = str(ctx.T)
        # what every generator emitted, in generator order (later wins; inside one generator the later element wins)
        order = ctx.run.plan["run"].get("generators") or []
        emitted = {}   # vid -> list of (generator, instruction)
        spies = {name: ins for name, _sim, _env, ins in ctx.spy}
        gen_sim = ctx.spy[0][1] if ctx.spy else sim_in
        for name in order:
            if name.startswith("adv"):
                idx = int(name[3:])
                for o in ctx.run.plan["ops"].get(key, ()):
                    if o.get("k") == "instr" and o.get("g") == idx:
                        emitted.setdefault(o["v"], []).append((name, build_instruction(o)))
            else:
                for i in spies.get(name, ()):
                    emitted.setdefault(i.vehicle_id, []).append((name, i))
        # the drivers' word (asked from the real driver states, on the state the generators saw)
        want = {}
        for vid in sorted(gen_sim.vehicles):
            v = gen_sim.vehicles[vid]
            stack = tuple(i for _, i in reversed(emitted.get(vid, ())))
            try:
                di = v.driver_state.generate_instruction(gen_sim, ctx.env, stack if stack else None)
            except Exception:
                di = None
            if di is not None:
                want[di.vehicle_id] = ("driver", di)
            elif vid in emitted:
                want[vid] = emitted[vid][-1]
        got = {}
        for i in final:
            if i.vehicle_id in got:
                out.append(V("C09", "two_instructions_one_vehicle", k, f"vehicle {i.vehicle_id} has two instructions in the step's final set"))
            got[i.vehicle_id] = i
        if any(len(x) > 1 for x in emitted.values()) or any(w[0] == "driver" and vid in emitted for vid, w in want.items()):
            self.competed += 1
            ctx.run.probes["competing_instructions"] += 1
        for vid in sorted(set(want) | set(got)):
            w = want.get(vid)
            g = got.get(vid)
            if w is None or g is None or w[1] != g:
                out.append(V("C09", "precedence", k, f"vehicle {vid}: expected the last generated instruction {w} to be applied, the step applied {g}"))
        # the instruction reports of the step: exactly one per instructed vehicle
        from nrel.hive.reporting.report_type import ReportType as RT
        rep = [r.report["vehicle_id"] for r in ctx.reports_of(RT.INSTRUCTION)]
        if sorted(rep) != sorted(got):
            out.append(V("C09", "instruction_reports", k, f"instruction reports for {sorted(rep)} but final instructions for {sorted(got)}"))
        # the state's own record of the step's instructions names nothing but this step's final instructions (a record left over
        # from an earlier step would say that an instruction took effect in a step in which none was generated for that vehicle)
        stale = sorted(vid for vid, ins in ctx.nxt.applied_instructions.items() if got.get(vid) != ins)
        if stale:
            out.append(V("C09", "stale_applied_instruction", k, f"applied_instructions after the step names {stale}, whose final instruction this step was {[got.get(v) for v in stale]}"))
        # only the final instruction can explain the vehicle's activity after the instructions were applied
        for vid, v1 in sim_out.vehicles.items():
            v0 = sim_in.vehicles.get(vid)
            if v0 is None or v1.vehicle_state is v0.vehicle_state:
                continue
            g = got.get(vid)
            kind = KIND_OF_CLASS.get(type(g).__name__) if g is not None else None
            if g is None or act(v1) not in EXPECT.get(kind, ()):
                out.append(V("C09", "unexplained_transition", k, f"vehicle {vid} went {act(v0)} -> {act(v1)} while instructions were applied; its instruction was {g}"))
        # the joint application is the sequential one: applying the step's final instructions together must give exactly the
        # world obtained by applying them ONE AT A TIME, in the same order, each all-or-nothing on the state the previous one
        # left (acceptance is not inferred from the joint result here, so a rejection that silently discards another vehicle's
        # accepted transition cannot hide behind its own effect)
        if len(final) >= 2:
            seq = sim_in
            for i in final:
                seq = apply_instructions(seq, ctx.env, (i,))
            same, diff = world_unchanged(sim_out, seq)
            self.folds += 1
            if not same:
                out.append(V("C09", "joint_differs_from_sequential", k,
                             f"applying the step's {len(final)} instructions together differs from applying them one at a time in the same order: {diff}"))
        # rejecting one does not disturb the others
        rejected = [i for i in final if not ctx.accepted.get(i.vehicle_id)]
        if rejected and len(final) > len(rejected):
            ctx.run.probes["rejected_among_others"] += 1
            kept = tuple(i for i in final if ctx.accepted.get(i.vehicle_id))
            a = apply_instructions(sim_in, ctx.env, tuple(final))
            b = apply_instructions(sim_in, ctx.env, kept)
            same, diff = world_unchanged(a, b)
            if not same:
                out.append(V("C09", "rejection_disturbs_others", k, f"applying the step's instructions with and without the rejected ones differs: {diff}"))
        return out

    def nontrivial(self, run):
        return self.competed > 0
