"""C01: the same scenario in K fresh interpreters with different PYTHONHASHSEED values must produce identical per-step
fingerprints (instance ids dropped, set-valued fields sorted), identical per-step event multisets (session ids dropped)
and identical summary statistics."""
import copy
import json
import os
import shutil
import subprocess
import sys
import tempfile
import time

import h3
import yaml

from . import seams, world
from .runner import Run, V, build_generators, derive_seed, stream, execute, _close_files
from .profiles import make_plan
from .fingerprint import sim_fp, canon_report, digest, entity_table, first_difference, canon
from .shrink import plan_size, shrink

from nrel.hive.app import hive_cosim
from nrel.hive.config import HiveConfig
from nrel.hive.initialization.load import load_simulation

VERIF = seams.VERIF_DIR
SHIPPED_DIR = os.path.join(world.REPO, "nrel/hive/resources/scenarios/denver_downtown")
SHIPPED = [("denver_demo.yaml", 260), ("denver_demo_fleets.yaml", 200), ("denver_demo_constrained_charging.yaml", 300),
           ("denver_rl_toy.yaml", 150), ("denver_demo.yaml:euclidean", 400)]


def tie_world(plan, seed):
    """make ties and set-valued choices likely: stations on one hex ring around a hub (equal grid distance, different search
    cells), several on-shift plug types that rank equally, co-located vehicles, low charge so that searches start early"""
    r = stream(seed, "c01ties")
    spec = plan["spec"]
    if spec["network"]["kind"] == "haversine" and spec["stations"]:
        hub = spec["vehicles"][0]["cell"] if spec["vehicles"] else world.CENTER
        # exact ties need exact symmetry: the hub is the CENTRE of a coarse cell and the stations are the centres of cells of one
        # ring around it (equal grid distance at the location resolution); when the ring is taken at the search resolution itself the
        # tied stations also lie in different search cells of one search ring
        sres = int(spec["sim"]["sim_h3_search_resolution"])
        res = sres if r.random() < 0.75 else r.choice([10, 11, 12])
        hub_parent = h3.h3_to_parent(hub, res)
        hub = h3.h3_to_center_child(hub_parent, 15)
        ring = sorted(h3.hex_ring(hub_parent, r.choice([1, 1, 2, 3])))
        cells = [h3.h3_to_center_child(c, 15) for c in ring]
        r.shuffle(cells)
        for i, s in enumerate(spec["stations"]):
            s["cell"] = cells[i % len(cells)]
        for j, v in enumerate(spec["vehicles"]):
            if j == 0 or r.random() < 0.6:
                v["cell"] = hub
                if v["mech"] == "bev" and r.random() < 0.7:
                    v["soc"] = r.choice([0.03, 0.05, 0.08])   # looks for a station at once, from the exact centre
        if spec["bases"] and r.random() < 0.5:
            ring_b = sorted(h3.hex_ring(h3.h3_to_parent(hub, res), 1))
            for i, b in enumerate(spec["bases"]):
                b["cell"] = h3.h3_to_center_child(ring_b[i % len(ring_b)], 15)
    if spec["stations"] and r.random() < 0.35:
        # scarce world: one station, one plug of one type, most vehicles at the hub: they arrive and queue in the same step
        # (equal queue stamps), and every freed plug is contested
        st = spec["stations"][0]
        st["plugs"] = [{"charger": r.choice(["DCFC", "LEVEL_2", "DC20"]), "count": 1, "on_shift": True}]
        spec["stations"] = [st]
        for b in spec["bases"]:
            if b.get("station") and b["station"] != st["id"]:
                b["station"] = None
        if spec.get("fleets"):
            for f in spec["fleets"].values():
                f["stations"] = [x for x in f["stations"] if x == st["id"]]
        if spec.get("prices"):
            spec["prices"] = None
        hub = spec["vehicles"][0]["cell"] if spec["vehicles"] else world.CENTER
        for v in spec["vehicles"]:
            if v["mech"] == "bev" and r.random() < 0.8:
                v["cell"] = hub
                v["soc"] = r.choice([0.05, 0.08, 0.1])
        return plan
    for s in spec["stations"]:
        have = {p["charger"] for p in s["plugs"]}
        for k in ("DCFC", "DC150", "LEVEL_2"):
            if k not in have and r.random() < 0.7:
                s["plugs"].append({"charger": k, "count": r.choice([1, 2]), "on_shift": True})
        for p in s["plugs"]:
            if r.random() < 0.8:
                p["on_shift"] = True
    return plan


# ---------------------------------------------------------------------------------------------------------
# worker side (fresh interpreter, explicit PYTHONHASHSEED)
# ---------------------------------------------------------------------------------------------------------
def _load_shipped(name, d):
    """copy the shipped Denver scenario directory next to a converted road network (networkx >= 3.4 key) and load it"""
    euclid = name.endswith(":euclidean")
    name = name.split(":")[0]
    dst = os.path.join(str(d), "denver")
    shutil.copytree(SHIPPED_DIR, dst, ignore=shutil.ignore_patterns("__pycache__", "road_network"))
    os.makedirs(os.path.join(dst, "road_network"))
    with open(os.path.join(dst, "road_network", "downtown_denver_network.json"), "w") as f:
        json.dump(world.denver_graph(), f)
    with open(os.path.join(dst, name)) as f:
        y = yaml.safe_load(f)
    if euclid:
        y["network"] = {"network_type": "euclidean"}
        y["input"].pop("road_network_file", None)
    y["sim"]["sim_name"] = "shipped"
    p = os.path.join(dst, name)
    with open(p, "w") as f:
        yaml.safe_dump(y, f)
    from pathlib import Path
    cfg = HiveConfig.build(Path(p), y, "out")
    if isinstance(cfg, Exception):
        raise cfg
    g = cfg.global_config._replace(output_base_directory=str(d), lazy_file_reading=False, wkt_x_y_ordering=True, **world._GLOBAL_OFF)
    g = g._replace(log_stats=True)
    cfg = cfg._replace(global_config=g, scenario_output_directory=Path(str(d)) / "out_shipped")
    return load_simulation(cfg, None)


def run_logged(plan, dump_step=None):
    """execute one C01 plan in this interpreter; returns per-step digests, event digests, summary"""
    seams.reseed_uuid(plan["seed"])
    rp = None
    run = Run(plan, False)
    d = None
    try:
        if plan.get("shipped"):
            from pathlib import Path
            d = Path(tempfile.mkdtemp(prefix="c01_", dir=world.scratch_root()))
            rp = _load_shipped(plan["shipped"], d)
        else:
            d = world.materialise(plan["spec"])
            cfg = world.load_config(d, lazy=False, log_events=False)
            g = cfg.global_config._replace(log_stats=True)
            cfg = cfg._replace(global_config=g)
            spy = []
            gens = build_generators(plan, cfg, run, spy) if plan["run"].get("generators") is not None else None
            rp = load_simulation(cfg, gens)
        run.rp = rp

        class Rec:
            def __init__(self):
                self.ev = []

            def handle(self, reports, rp_):
                self.ev.append(digest(sorted(canon_report(r) for r in reports)))

            def close(self, rp_):
                pass

        rec = Rec()
        rp.e.reporter.add_handler(rec)
        fps = []
        dump = None
        decisions = 0
        stopped = None
        for k in range(plan["nsteps"]):
            try:
                rp = hive_cosim.crank(rp, 1).runner_payload
            except Exception as e:
                # an exception escaping HIVE ends this execution; where and what is part of the comparison
                stopped = [k, type(e).__name__]
                break
            run.rp = rp
            fps.append(sim_fp(rp.s, drop_ids=True)[:16])
            decisions += len(rp.s.applied_instructions)
            if dump_step is not None and k == dump_step:
                dump = {repr(key): repr(val) for key, val in entity_table(rp.s).items()}
                break
        summ = rp.e.reporter.get_summary_stats(rp) if stopped is None else None
        return {"fps": fps, "ev": [e[:16] for e in rec.ev], "summary": digest(canon(summ)) if summ is not None else None,
                "dump": dump, "decisions": decisions, "stopped": stopped}
    finally:
        _close_files(run)
        if d is not None:
            world.cleanup(d)


def worker_main(jobfile):
    with open(jobfile) as f:
        job = json.load(f)
    out = {}
    plans = job["plans"]
    order = list(range(len(plans)))
    # a different, unrelated allocation history per interpreter: another scenario order
    hs = int(os.environ.get("PYTHONHASHSEED", "0") or 0)
    order = order[hs % max(1, len(order)):] + order[:hs % max(1, len(order))]
    for i in order:
        p = plans[i]
        try:
            out[str(i)] = run_logged(p, job.get("dump_step"))
        except Exception as e:
            import traceback
            out[str(i)] = {"error": "".join(traceback.format_exception(type(e), e, e.__traceback__))[-2000:]}
    with open(job["out"], "w") as f:
        json.dump(out, f)
    return 0


# ---------------------------------------------------------------------------------------------------------
# parent side
# ---------------------------------------------------------------------------------------------------------
def spawn(plans, hashseed, tag, dump_step=None):
    root = world.scratch_root()
    fd, jobfile = tempfile.mkstemp(prefix=f"c01job_{tag}_", suffix=".json", dir=root)
    os.close(fd)
    outfile = jobfile.replace("c01job_", "c01out_")
    with open(jobfile, "w") as f:
        json.dump({"plans": plans, "out": outfile, "dump_step": dump_step}, f)
    env = dict(os.environ, PYTHONHASHSEED=str(hashseed), HIVESIM_KEEP_HASHSEED="1",
               PYTHONPATH=VERIF + os.pathsep + os.environ.get("PYTHONPATH", ""))
    p = subprocess.Popen([sys.executable, "-m", "hivesim", "c01-worker", jobfile], cwd=VERIF, env=env,
                         stdout=subprocess.DEVNULL, stderr=subprocess.PIPE)
    return p, jobfile, outfile


def collect(p, jobfile, outfile, timeout=3000):
    try:
        _, err = p.communicate(timeout=timeout)
    except subprocess.TimeoutExpired:
        p.kill()
        raise RuntimeError("C01 worker timed out")
    try:
        with open(outfile) as f:
            res = json.load(f)
    except Exception:
        raise RuntimeError("C01 worker produced no output: " + (err.decode()[-1500:] if err else ""))
    finally:
        for x in (jobfile, outfile):
            try:
                os.remove(x)
            except OSError:
                pass
    return res


def run_matrix(plans, hashseeds, max_procs=16):
    """every plan under every hash seed; returns {hashseed: {plan index: log}}"""
    nchunks = max(1, min(len(plans), max_procs // max(1, len(hashseeds))))
    chunks = [list(range(i, len(plans), nchunks)) for i in range(nchunks)]
    procs = []
    for ci, idxs in enumerate(chunks):
        for hs in hashseeds:
            procs.append((hs, idxs, spawn([plans[i] for i in idxs], hs, f"{ci}_{hs}")))
    res = {hs: {} for hs in hashseeds}
    for hs, idxs, (p, jf, of) in procs:
        out = collect(p, jf, of)
        for local, i in enumerate(idxs):
            res[hs][i] = out[str(local)]
    return res


def compare_logs(logs, hashseeds):
    """logs: {hashseed: log}; returns None or (hs_a, hs_b, step, what)"""
    ref_hs = hashseeds[0]
    ref = logs[ref_hs]
    for hs in hashseeds[1:]:
        x = logs[hs]
        for what in ("fps", "ev"):
            a, b = ref[what], x[what]
            for k in range(max(len(a), len(b))):
                if k >= len(a) or k >= len(b) or a[k] != b[k]:
                    return ref_hs, hs, k, "state" if what == "fps" else "events"
        if ref.get("stopped") != x.get("stopped"):
            return ref_hs, hs, len(ref["fps"]), f"how the run ended ({ref.get('stopped')} vs {x.get('stopped')})"
        if ref["summary"] != x["summary"]:
            return ref_hs, hs, len(ref["fps"]) - 1, "summary"
    return None


class _Hist:
    def __init__(self, s):
        self._s = s

    def hexdigest(self):
        return self._s


class _R:
    pass


class C01Driver:
    name = "c01"
    prop = "C01"

    def budget(self, tier):
        return 1  # one evaluation task: the whole matrix is run by extra()

    def make(self, seed):
        plan = make_plan("C01", seed)
        tie_world(plan, seed)
        gens = plan["run"].get("generators") or []
        if any(g.startswith("adv") for g in gens):
            execute(plan, [], generate=True)
        return plan

    def run_one(self, seed, want_plan=False):
        # placeholder task so that the generic batch loop has something to aggregate
        return {"seed": seed, "viol": [], "stats": {}, "probes": {}, "sigs": [], "abstract": [], "steps": 0, "sim_s": 0,
                "nontrivial": False, "digest": "", "plan_digest": "", "aborted": None, "size": {}}

    def hashseeds(self, seed, k):
        r = stream(seed, "hashseeds")
        out = [0]
        while len(out) < k:
            x = r.randint(1, 4000000000)
            if x not in out:
                out.append(x)
        return out

    def extra(self, tier, base_seed):
        t0 = time.time()
        n_worlds, k = (72, 4) if tier == "quick" else (600, 8)
        if os.environ.get("HIVESIM_C01_WORLDS"):   # experiments only
            n_worlds = int(os.environ["HIVESIM_C01_WORLDS"])
        hashseeds = self.hashseeds(base_seed, k)
        plans = []
        for i in range(n_worlds):
            plans.append(self.make(derive_seed(base_seed, "C01", i)))
        shipped = SHIPPED if tier == "quick" else SHIPPED + [("denver_demo_fleets.yaml", 500), ("denver_demo_constrained_charging.yaml", 700)]
        for name, n in shipped:
            plans.append({"version": 1, "property": "C01", "seed": 7, "shipped": name, "nsteps": n, "run": {}, "spec": {"vehicles": [], "requests": [], "stations": [], "bases": []}, "ops": {}})
        res = run_matrix(plans, hashseeds)
        viol = []
        nontriv = set()
        steps = 0
        sim_s = 0
        errors = []
        diverged = 0
        stopped_n = 0
        for i, plan in enumerate(plans):
            logs = {hs: res[hs][i] for hs in hashseeds}
            bad = [l for l in logs.values() if "error" in l]
            if bad:
                errors.append(bad[0]["error"])
                continue
            if logs[hashseeds[0]].get("stopped"):
                stopped_n += 1
            steps += sum(len(l["fps"]) for l in logs.values())
            dt = plan["spec"]["sim"]["timestep_duration_seconds"] if plan.get("spec", {}).get("sim") else 60
            sim_s += sum(len(l["fps"]) for l in logs.values()) * dt
            if logs[hashseeds[0]]["decisions"] > 0 and len(logs[hashseeds[0]]["fps"]) >= 20:
                nontriv.add(digest((plan.get("shipped"), plan.get("spec"), plan.get("run"))))
            d = compare_logs(logs, hashseeds)
            if d is not None:
                diverged += 1
                a, b, step, what = d
                viol.append({"property": "C01", "rule": "diverge", "key": "C01/diverge", "step": step, "plan_index": i,
                             "msg": f"{'shipped ' + plan['shipped'] if plan.get('shipped') else 'generated world'}: PYTHONHASHSEED={a} and {b} differ at step {step} in {what}",
                             "pair": [a, b], "plan": plan, "seed": plan["seed"]})
        feats = {"worlds_with_a_vehicle_in_two_or_more_fleets": 0, "worlds_with_two_or_more_on_shift_electric_plug_types_at_a_station": 0,
                 "worlds_with_human_drivers": 0, "worlds_with_a_scripted_controller": 0, "worlds_on_a_street_graph": 0,
                 "scarce_worlds_one_station_one_plug": 0, "worlds_ranking_stations_by_time_to_charge": 0}
        for plan in plans:
            sp = plan.get("spec") or {}
            if not sp.get("sim"):
                continue
            fl = sp.get("fleets") or {}
            cnt = {}
            for f in fl.values():
                for vid in f["vehicles"]:
                    cnt[vid] = cnt.get(vid, 0) + 1
            feats["worlds_with_a_vehicle_in_two_or_more_fleets"] += int(any(c >= 2 for c in cnt.values()))
            feats["worlds_with_two_or_more_on_shift_electric_plug_types_at_a_station"] += int(any(
                sum(1 for p in st["plugs"] if p["on_shift"] and world.ENERGY_OF[p["charger"]] == "electric") >= 2 for st in sp["stations"]))
            feats["worlds_with_human_drivers"] += int(any(v.get("schedule") for v in sp["vehicles"]))
            feats["worlds_with_a_scripted_controller"] += int(any(g.startswith("adv") for g in (plan["run"].get("generators") or [])))
            feats["worlds_on_a_street_graph"] += int(sp["network"]["kind"] != "haversine")
            feats["scarce_worlds_one_station_one_plug"] += int(len(sp["stations"]) == 1 and sum(p["count"] for p in sp["stations"][0]["plugs"]) == 1)
            feats["worlds_ranking_stations_by_time_to_charge"] += int(sp.get("dispatcher", {}).get("charging_search_type") == "shortest_time_to_charge")
        self._viol_plans = {v["plan_index"]: v for v in viol}
        cov = {"evaluations": len(plans), "distinct_nontrivial": len(nontriv), "interpreters_per_scenario": k, "hash_seeds": hashseeds,
               "steps": steps, "simulated_seconds": sim_s, "simulated_hours": sim_s / 3600.0, "scenarios_diverging": diverged, "world_features": feats, "scenarios_ended_by_an_exception_escaping_hive_identically_in_all_interpreters": stopped_n,
               "shipped_scenarios": [s for s, _ in shipped], "fault_kinds_fired": {"hash_seed_change": len(plans) * (k - 1), "fresh_interpreter": len(plans) * k},
               "runs_per_hour": len(plans) * k / max(1e-9, time.time() - t0) * 3600,
               "samples": [{"seed": p["seed"], "shipped": p.get("shipped"), "size": plan_size(p) if p.get("spec", {}).get("sim") else None,
                            "generators": p["run"].get("generators"), "steps": p["nsteps"]} for p in plans[:2] + plans[-2:]]}
        if errors:
            raise RuntimeError("C01 worker error: " + errors[0])
        return {"coverage": cov, "viol": viol, "seed": base_seed}

    # -- minimisation / replay ---------------------------------------------------------------------------
    def diverges(self, plan, pair):
        res = run_matrix([plan], list(pair), max_procs=2)
        logs = {hs: res[hs][0] for hs in pair}
        if any("error" in l for l in logs.values()):
            return None
        return compare_logs(logs, list(pair))

    def minimise(self, r, v, key):
        plan = copy.deepcopy(v["plan"])
        pair = v["pair"]
        plan["nsteps"] = v["step"] + 1
        if not plan.get("shipped"):
            def fails(p):
                p = copy.deepcopy(p)
                return self.diverges(p, pair) is not None
            plan = shrink(plan, fails, budget=40)
        d = self.diverges(plan, pair)
        step = d[2] if d else v["step"]
        plan["nsteps"] = step + 1
        detail = self.explain(plan, pair, step)
        return {"version": 1, "driver": self.name, "property": "C01", "key": key, "rule": "diverge", "step": step,
                "msg": v["msg"] + "; " + detail, "seed": plan["seed"], "pair": pair, "history_digest": None,
                "size": plan_size(plan) if plan.get("spec", {}).get("sim") else {"shipped": plan.get("shipped")}, "plan": plan}

    def explain(self, plan, pair, step):
        """re-run the two offending executions with full dumps and name the first differing entity/field"""
        procs = [(hs, spawn([plan], hs, f"dump_{hs}", dump_step=step)) for hs in pair]
        dumps = {}
        for hs, (p, jf, of) in procs:
            out = collect(p, jf, of)
            dumps[hs] = out["0"].get("dump") or {}
        a, b = dumps[pair[0]], dumps[pair[1]]
        for key in sorted(set(a) | set(b)):
            if a.get(key) != b.get(key):
                x, y = a.get(key, ""), b.get(key, "")
                i = next((j for j, (c1, c2) in enumerate(zip(x, y)) if c1 != c2), min(len(x), len(y)))
                return f"first differing entity {key}: ...{x[max(0, i - 60):i + 80]}... vs ...{y[max(0, i - 60):i + 80]}..."
        return "states equal at that step (the difference is in the events or the summary)"

    def replay(self, rep):
        d = self.diverges(rep["plan"], rep["pair"])
        if d is None:
            return [], None
        a, b, step, what = d
        msg = f"PYTHONHASHSEED={a} and {b} differ at step {step} in {what}; " + self.explain(rep["plan"], rep["pair"], step)
        return [{"property": "C01", "rule": "diverge", "key": "C01/diverge", "step": step, "msg": msg}], None
