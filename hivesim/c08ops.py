"""C08 driver: simulated runs with the index oracle (two thirds) and operation-level histories on a SimulationState
through the public simulation_state_ops API (one third), against a dict reference model."""
import copy
import dataclasses
import hashlib

import h3

from . import seams, world
from .batch import EngineDriver, summarise
from .runner import V, stream
from .world import gen_world, EDGE_KM, offset_cell
from .oracles.state import c08_check
from .fingerprint import digest
from .shrink import plan_size

from nrel.hive.state.simulation_state import simulation_state_ops as ops
from returns.result import Failure

KINDS = ("vehicle", "request", "station", "base")
COLL = {"vehicle": "vehicles", "request": "requests", "station": "stations", "base": "bases"}


class _Hist:
    def __init__(self, s):
        self._s = s

    def hexdigest(self):
        return self._s


class _R:
    pass


def gen_history(seed):
    r = stream(seed, "c08ops")
    res = r.choice([7, 8, 9, 10, 11, 12])
    # cells: inside one search cell, in a neighbouring search cell, far away
    home = h3.h3_to_parent(world.CENTER, res)
    kids = sorted(h3.h3_to_children(home, min(15, res + 2)))
    near = sorted(h3.k_ring(home, 1) - {home})
    cells = [world.CENTER]
    for _ in range(4):
        cells.append(h3.h3_to_center_child(r.choice(kids), 15))
    for _ in range(3):
        cells.append(h3.h3_to_center_child(r.choice(near), 15))
    cells.append(h3.h3_to_center_child(r.choice(sorted(h3.k_ring(home, 3) - h3.k_ring(home, 2))), 15))
    cells = sorted(set(cells))
    n = r.randint(30, 120)
    hist = []
    live = {k: [] for k in KINDS}
    nid = {k: 0 for k in KINDS}
    for _ in range(n):
        kind = r.choice(["vehicle", "vehicle", "vehicle", "request", "request", "station", "base"])
        ids = live[kind]
        c = r.choice(cells)
        x = r.random()
        if not ids or x < 0.25:
            i = f"{kind[0]}{nid[kind]}"
            nid[kind] += 1
            hist.append({"op": "add", "kind": kind, "id": i, "cell": c})
            ids.append(i)
        elif x < 0.6:
            hist.append({"op": "move", "kind": kind, "id": r.choice(ids), "cell": c})
        elif x < 0.7:
            hist.append({"op": "touch", "kind": kind, "id": r.choice(ids)})
        elif x < 0.85:
            i = r.choice(ids)
            hist.append({"op": "pop" if kind == "vehicle" and r.random() < 0.4 else "remove", "kind": kind, "id": i})
            ids.remove(i)
        elif x < 0.93:
            hist.append({"op": r.choice(["move", "remove", "touch"]), "kind": kind, "id": f"{kind[0]}_absent", "cell": c})
        else:
            hist.append({"op": "move", "kind": kind, "id": r.choice(ids), "cell": c})
    return {"version": 1, "property": "C08", "kind": "ops", "seed": seed, "search_res": res, "history": hist}


_PROTO = {}


def _prototypes():
    """one entity of each kind, loaded by the real loader from a tiny generated world"""
    if "p" not in _PROTO:
        import random
        spec = gen_world(random.Random(5), {"nv": (1, 1), "ns": (1, 1), "nb": (1, 1), "nr": (1, 1), "network": ["haversine"], "starts": [0], "steps": [60]})
        spec["requests"][0]["t"] = 0
        d = world.materialise(spec)
        try:
            rp = world.load(d, ())
            from nrel.hive.app import hive_cosim
            rp1 = hive_cosim.crank(rp, 1).runner_payload
            req = next(iter(rp1.s.requests.values()), None)
            if req is None:
                from nrel.hive.model.request.request import Request
                from nrel.hive.model.sim_time import SimTime
                req = Request.build("rq", world.CENTER, world.CENTER, rp.s.road_network, SimTime(0), 1, False)
            _PROTO["p"] = {"vehicle": next(iter(rp.s.vehicles.values())), "station": next(iter(rp.s.stations.values())),
                           "base": next(iter(rp.s.bases.values())), "request": req, "sim": rp.s}
        finally:
            world.cleanup(d)
    return _PROTO["p"]


def run_history(plan):
    P = _prototypes()
    sim0 = P["sim"]
    sim = sim0._replace(vehicles=sim0.vehicles.delete(next(iter(sim0.vehicles))), stations=sim0.stations.delete(next(iter(sim0.stations))),
                        bases=sim0.bases.delete(next(iter(sim0.bases))), sim_h3_search_resolution=plan["search_res"])
    import immutables
    sim = sim._replace(v_locations=immutables.Map(), v_search=immutables.Map(), s_locations=immutables.Map(), s_search=immutables.Map(),
                       b_locations=immutables.Map(), b_search=immutables.Map(), r_locations=immutables.Map(), r_search=immutables.Map(),
                       requests=immutables.Map())
    rn = sim.road_network
    model = {k: {} for k in KINDS}
    out = []
    hh = hashlib.sha256()
    effective = 0
    kinds_of_moves = set()
    for n, o in enumerate(plan["history"]):
        kind, i = o["kind"], o["id"]
        coll = getattr(sim, COLL[kind])
        before = sim
        res = None
        expect_ok = None
        if o["op"] == "add":
            e = dataclasses.replace(P[kind], id=i, position=rn.position_from_geoid(o["cell"]))
            res = ops.add_entity_safe(sim, e)
            expect_ok = True
            if isinstance(res, Failure):
                out.append(V("C08", "add_failed", n, f"adding {kind} {i} failed: {res.failure()}"))
            else:
                model[kind][i] = o["cell"]
        elif o["op"] in ("move", "touch"):
            cur = coll.get(i)
            if cur is None:
                e = dataclasses.replace(P[kind], id=i, position=rn.position_from_geoid(o.get("cell") or world.CENTER))
                res = ops.modify_entity_safe(sim, e)
                expect_ok = False
            else:
                if o["op"] == "move":
                    e = dataclasses.replace(cur, position=rn.position_from_geoid(o["cell"]))
                    moved = o["cell"] != model[kind][i]
                    expect_ok = True if kind in ("vehicle", "request") else (not moved)
                    if moved and expect_ok:
                        sres = plan["search_res"]
                        kinds_of_moves.add("same_search_cell" if h3.h3_to_parent(o["cell"], sres) == h3.h3_to_parent(model[kind][i], sres) else "other_search_cell")
                        if o["cell"] in model[kind].values():
                            kinds_of_moves.add("onto_occupied_cell")
                else:
                    e = dataclasses.replace(cur, membership=cur.membership.add_membership("touched"))
                    expect_ok = True
                res = ops.modify_entity_safe(sim, e)
                if expect_ok and not isinstance(res, Failure) and o["op"] == "move":
                    model[kind][i] = o["cell"]
        elif o["op"] in ("remove", "pop"):
            present = i in coll
            expect_ok = present
            if kind == "vehicle":
                res = ops.pop_vehicle_safe(sim, i) if o["op"] == "pop" else ops.remove_vehicle_safe(sim, i)
            elif kind == "request":
                res = ops.remove_request_safe(sim, i)
            elif kind == "station":
                res = ops.remove_station_safe(sim, i)
            else:
                res = ops.remove_base_safe(sim, i)
            if present and not isinstance(res, Failure):
                del model[kind][i]
        ok = not isinstance(res, Failure)
        if ok:
            val = res.unwrap()
            sim = val[0] if (o["op"] == "pop" and kind == "vehicle") else val
            effective += 1
        if expect_ok is False and ok:
            out.append(V("C08", "hostile_call_accepted", n, f"{o['op']} of {'absent ' if i not in getattr(before, COLL[kind]) else ''}{kind} {i} was accepted (relocating a station/base or touching an absent id must be refused)",
                         key=f"C08/hostile_call_accepted/{kind}/{o['op']}"))
        if expect_ok is True and not ok:
            out.append(V("C08", "legal_call_refused", n, f"{o['op']} of {kind} {i} was refused: {res.failure()}"))
        if not ok and sim is not before:
            out.append(V("C08", "refused_but_changed", n, f"{o['op']} of {kind} {i} was refused but the state changed"))
        # indexes vs entities, entities vs reference model
        out += [V("C08", x["rule"], n, f"after {o['op']} {kind} {i}: " + x["msg"], key=x["key"]) for x in c08_check(sim, n)]
        for k2 in KINDS:
            got = {j: e.position.geoid for j, e in getattr(sim, COLL[k2]).items()}
            if got != model[k2]:
                out.append(V("C08", "entities_vs_model", n, f"after {o['op']} {kind} {i}: {k2}s are {sorted(got.items())[:4]}.. but the operations so far give {sorted(model[k2].items())[:4]}..",
                             key=f"C08/entities_vs_model/{k2}"))
        hh.update(repr((n, ok, sorted(sim.v_locations.keys()), sorted(sim.r_search.keys()))).encode())
        if out:
            break
    return out, hh.hexdigest(), effective, kinds_of_moves


class C08Driver(EngineDriver):
    name = "c08"

    def __init__(self):
        super().__init__("C08")

    def run_one(self, seed, want_plan=False):
        if seed % 3 != 0:
            return super().run_one(seed, want_plan)
        plan = gen_history(seed)
        vs, h, eff, moves = run_history(plan)
        res = {"seed": seed, "viol": [dict(v) for v in vs[:4]], "stats": {"operation_histories": 1, "operations": len(plan["history"]),
                                                                            "hostile_calls": sum(1 for o in plan["history"] if o["id"].endswith("_absent") or (o["op"] == "move" and o["kind"] in ("station", "base")))},
               "probes": {"move_" + m: 1 for m in moves}, "sigs": [], "abstract": [], "steps": 0, "sim_s": 0,
               "nontrivial": eff >= 10, "digest": h, "plan_digest": digest(plan["history"]), "aborted": None,
               "size": {"operations": len(plan["history"])}}
        if want_plan:
            res["plan"] = plan
        return res

    def violations_of(self, plan):
        if plan.get("kind") != "ops":
            return super().violations_of(plan)
        vs, h, _, _ = run_history(plan)
        r = _R()
        r.history = _Hist(h)
        return vs, r

    def minimise(self, r, v, key):
        full = self.run_one(r["seed"], want_plan=True)
        plan = full["plan"]
        if plan.get("kind") != "ops":
            return None  # handled by the generic path
        best = copy.deepcopy(plan)
        if isinstance(v.get("step"), int):
            best["history"] = best["history"][: v["step"] + 1]

        def fails(p):
            vs, _ = self.violations_of(p)
            return any(x["key"] == key for x in vs)

        i = 0
        tries = 0
        while i < len(best["history"]) and tries < 300:
            cand = copy.deepcopy(best)
            cand["history"].pop(i)
            tries += 1
            if fails(cand):
                best = cand
            else:
                i += 1
        vs, run = self.violations_of(best)
        mine = [x for x in vs if x["key"] == key] or [v]
        return {"version": 1, "driver": self.name, "property": "C08", "key": key, "rule": mine[0]["rule"], "step": mine[0]["step"],
                "msg": mine[0]["msg"], "seed": r["seed"], "history_digest": run.history.hexdigest(), "size": {"operations": len(best["history"])},
                "plan": best}
