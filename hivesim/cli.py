"""python -m hivesim <command>

  check <id> [--tier quick|thorough] [--runs N] [--workers N]   exit 0 held / 1 VIOLATION / 2 harness error
  replay <file>                                                   exit 1 when the recorded violation is reproduced
  selftest [--n N]                                                determinism self-test
  setup                                                           verify that everything needed imports
"""
import argparse
import os
import sys


def main(argv):
    if argv and argv[0] == "mutants":
        from .mutants import main as mmain
        return mmain(argv[1:])
    ap = argparse.ArgumentParser(prog="hivesim")
    sub = ap.add_subparsers(dest="cmd", required=True)
    c = sub.add_parser("check")
    c.add_argument("prop")
    c.add_argument("--tier", default=os.environ.get("VERIF_TIER") or "quick", choices=["quick", "thorough"])
    c.add_argument("--runs", type=int, default=None)
    c.add_argument("--workers", type=int, default=None)
    sc = sub.add_parser("scan")
    sc.add_argument("props")
    sc.add_argument("--runs", type=int, default=150)
    r = sub.add_parser("replay")
    r.add_argument("path")
    s = sub.add_parser("selftest")
    s.add_argument("--n", type=int, default=24)
    s.add_argument("--props", default="C02,C03,C06,C09,C17")
    sub.add_parser("setup")
    mu = sub.add_parser("mutants")
    mu.add_argument("rest", nargs=argparse.REMAINDER)
    w = sub.add_parser("c01-worker")
    w.add_argument("jobfile")
    a = ap.parse_args(argv)

    if a.cmd == "setup":
        from . import seams  # noqa: F401
        import h3, networkx, scipy, yaml, immutables, numpy  # noqa: F401,E401
        print("hivesim setup ok: nrel.hive from", os.path.dirname(os.path.dirname(__import__("nrel.hive").hive.__file__)))
        return 0
    if a.cmd == "check":
        from .batch import check
        seed = os.environ.get("VERIF_SEED")
        tier = a.tier
        return check(a.prop, tier=tier, base_seed=int(seed) if seed not in (None, "") else None, workers=a.workers, n_override=a.runs)
    if a.cmd == "scan":
        from .batch import scan
        seed = os.environ.get("VERIF_SEED")
        return scan(a.props.split(","), runs=a.runs, base_seed=int(seed) if seed not in (None, "") else None)
    if a.cmd == "replay":
        from .batch import replay
        return replay(a.path)
    if a.cmd == "selftest":
        from .selftest import selftest
        return selftest(a.n, a.props.split(","))
    if a.cmd == "mutants":
        from .mutants import main as mmain
        return mmain(a.rest)
    if a.cmd == "c01-worker":
        from .c01 import worker_main
        return worker_main(a.jobfile)
    return 2
