"""Execute one plan against the real HIVE engine, one step at a time, feeding the armed oracles.

One integer decides everything: all PRNG streams of a run are derived from its seed by hashing, the adversary and the
fault stream record the concrete operations they chose into the plan, and replaying a plan consults no PRNG at all.
"""
import hashlib
import random
import traceback
from collections import Counter

from . import seams
from . import world
from .adversary import Adversary, Spy, Ticker, Ranker, act, KIND_OF_CLASS
from .fingerprint import canon_report, sim_fp, digest

from nrel.hive.app import hive_cosim
from nrel.hive.dispatcher.instruction_generator.charging_fleet_manager import ChargingFleetManager
from nrel.hive.dispatcher.instruction_generator.dispatcher import Dispatcher
from nrel.hive.reporting.report_type import ReportType as RT
from nrel.hive.runner import runner_payload_ops as rpo

import immutables


def stream(seed, name):
    h = hashlib.sha256(f"{seed}:{name}".encode()).digest()
    return random.Random(int.from_bytes(h[:8], "big"))


def derive_seed(base, prop, i):
    h = hashlib.sha256(f"{base}:{prop}:{i}".encode()).digest()
    return int.from_bytes(h[:6], "big")


class Capture:
    """a Handler registered on the real reporter: keeps every flushed batch"""

    def __init__(self):
        self.batches = []

    def handle(self, reports, runner_payload):
        self.batches.append(list(reports))

    def close(self, runner_payload):
        pass


class Violation(dict):
    pass


def V(prop, rule, step, msg="", key=None, **attrs):
    v = Violation(property=prop, rule=rule, step=step, msg=msg, key=key or f"{prop}/{rule}")
    if attrs:
        v["attrs"] = {k: (x if isinstance(x, (int, float, str, bool, type(None), list, dict)) else repr(x)) for k, x in attrs.items()}
    return v


class StepCtx:
    __slots__ = ("k", "T", "dt", "prev", "nxt", "env", "reports", "by_type", "spy", "applied", "traversals", "fired",
                 "ext_ops", "instructions", "accepted", "instructed", "run", "rp_before", "rp_after", "step_io")

    def reports_of(self, rt):
        return self.by_type.get(rt, ())


class Run:
    """state of one execution, shared with the oracles"""

    def __init__(self, plan, generate):
        self.plan = plan
        self.generate = generate
        self.seed = plan["seed"]
        self.spec = plan["spec"]
        self.stats = Counter()      # fault kinds that actually happened, sizes
        self.probes = Counter()     # rare conditions hit
        self.sigs = set()           # (prev activity, instruction kind, accepted|rejected)
        self.abstract = set()       # abstract states
        self.violations = []
        self.history = hashlib.sha256()
        self.steps_done = 0
        self.aborted = None         # text of an exception that escaped HIVE
        self.env = None
        self.rp = None
        self.dir = None
        self.states = []            # every SimulationState (only when keep_states)
        self.initial = None
        self.cap = None
        self.scratch = {}           # oracle-private storage


def _classify_rejection(sim, env, ins, kind):
    """why HIVE (probably) rejected this instruction -- harness accounting only, never used by an oracle"""
    v = sim.vehicles.get(ins.vehicle_id)
    if v is None:
        return "bad_vehicle"
    if act(v) == "ServicingTrip" and len(v.vehicle_state.route) > 0:
        return "interrupt_loaded_vehicle"
    tgt = None
    if kind == "DispatchTrip":
        tgt = sim.requests.get(ins.request_id)
    elif kind in ("DispatchStation", "ChargeStation"):
        tgt = sim.stations.get(ins.station_id)
    elif kind in ("DispatchBase", "ReserveBase", "ChargeBase"):
        tgt = sim.bases.get(ins.base_id)
    elif kind == "Reposition":
        return "rejected_other"
    else:
        return "rejected_other"
    if tgt is None:
        return "bad_target_missing"
    if tgt.membership.memberships and not (tgt.membership.memberships & v.membership.memberships):
        return "bad_fleet"
    if kind in ("ChargeStation", "ReserveBase", "ChargeBase") and tgt.geoid != v.geoid:
        return "bad_target_remote"
    if kind in ("ChargeStation", "DispatchStation", "ChargeBase"):
        st = tgt if kind != "ChargeBase" else (sim.stations.get(tgt.station_id) if tgt.station_id else None)
        if st is None:
            return "plug_absent"
        cs = st.state.get(ins.charger_id)
        if cs is None:
            return "plug_absent"
        mech = env.mechatronics.get(v.mechatronics_id)
        if mech is not None and not mech.valid_charger(cs.charger):
            return "bad_plug_type"
        if cs.available_chargers == 0:
            return "no_capacity"
    if kind in ("ReserveBase", "ChargeBase") and tgt.available_stalls == 0:
        return "no_capacity"
    return "rejected_other"


EXPECT = {
    "Idle": {"Idle"}, "OutOfService": {"OutOfService"}, "DispatchTrip": {"DispatchTrip"},
    "DispatchStation": {"DispatchStation", "ChargingStation"}, "ChargeStation": {"ChargingStation"},
    "DispatchBase": {"DispatchBase"}, "ReserveBase": {"ReserveBase"}, "ChargeBase": {"ChargingBase"},
    "Reposition": {"Repositioning"},
}


def abstract_state(sim):
    acts = sorted((act(v), bool(getattr(v.vehicle_state, "route", None))) for v in sim.vehicles.values())
    occ = sorted((sid, cid, cs.total_chargers - cs.available_chargers, cs.enqueued_vehicles)
                 for sid, s in sim.stations.items() for cid, cs in s.state.items())
    stalls = sorted((bid, b.total_stalls - b.available_stalls) for bid, b in sim.bases.items())
    nreq = len(sim.requests)
    nass = sum(1 for r in sim.requests.values() if r.dispatched_vehicle)
    return hash((tuple(acts), tuple(occ), tuple(stalls), min(nreq, 5), min(nass, 3)))


def build_generators(plan, cfg, run, spy_log):
    gens = []
    rs = plan["run"]
    for name in rs["generators"]:
        if name == "Dispatcher":
            gens.append(Spy(Dispatcher(cfg.dispatcher), spy_log))
        elif name == "ChargingFleetManager":
            gens.append(Spy(ChargingFleetManager(cfg.dispatcher), spy_log))
        elif name.startswith("adv"):
            idx = int(name[3:])
            rng = stream(plan["seed"], f"ops{idx}") if run.generate else None
            cells = sorted({v["cell"] for v in plan["spec"]["vehicles"]} | {r["d"] for r in plan["spec"]["requests"]}
                           | {s["cell"] for s in plan["spec"]["stations"]})
            gens.append(Adversary(idx, plan, rng, rs.get("adv", {}), cells))
        elif name == "ranker":
            gens.append(Spy(Ranker(), spy_log))
        elif name == "ticker":
            cells = tuple(sorted({r["d"] for r in plan["spec"]["requests"]} | {v["cell"] for v in plan["spec"]["vehicles"]}))
            gens.append(Ticker(cells=cells, count=0, period=rs.get("ticker_period", 2)))
        else:
            raise ValueError(name)
    return tuple(gens)


def _apply_add_request(rp, op, run):
    """a co-simulation user inserts a ride request directly into the state between two cranks (also before the first one)"""
    from nrel.hive.model.request.request import Request
    from nrel.hive.state.simulation_state import simulation_state_ops as sso
    from returns.result import Failure
    if op["id"] in rp.s.requests:
        return rp
    try:
        req = Request.build(request_id=op["id"], origin=op["o"], destination=op["d"], road_network=rp.s.road_network,
                            departure_time=rp.s.sim_time, passengers=1, allows_pooling=False, fleet_id=op.get("fleet"), value=float(op.get("value", 0.0)))
        res = sso.add_request_safe(rp.s, req)
        if isinstance(res, Failure):
            run.stats["ext_rejected"] += 1
            return rp
        run.stats["ext_request_added"] += 1
        if int(rp.s.sim_time) == 0:
            run.probes["request_present_at_clock_zero"] += 1
        return rp._replace(s=res.unwrap())
    except Exception:
        run.stats["ext_rejected"] += 1
        return rp


def _apply_ext(rp, op, run):
    """a co-simulation user changes a station between two cranks (public API only)"""
    if op["what"] == "add_request":
        return _apply_add_request(rp, op, run)
    st = rp.s.stations.get(op["station"])
    if st is None:
        return rp
    what = op["what"]
    try:
        if what == "set_rate":
            res = st.set_charger_rate(op["charger"], op["value"])
        elif what == "scale_rate":
            res = st.scale_charger_rate(op["charger"], op["value"])
        elif what == "set_price":
            if op["charger"] not in st.state:
                return rp
            err, new = st.update_prices(immutables.Map({op["charger"]: op["value"]}))
            if err is not None or new is None:
                return rp
            run.stats["ext_price_change"] += 1
            return rpo.modify_entities(rp, [new])
        else:
            return rp
        from returns.result import Failure
        if isinstance(res, Failure):
            run.stats["ext_rejected"] += 1
            return rp
        run.stats["ext_rate_change"] += 1
        return rpo.modify_entities(rp, [res.unwrap()])
    except Exception:
        run.stats["ext_rejected"] += 1
        return rp


def _gen_faults(run, rp, frng, key):
    """fault stream (generate mode): external changes and injected update failures for the coming step"""
    rs = run.plan["run"]
    ops = []
    sids = sorted(rp.s.stations)
    if sids and frng.random() < rs.get("p_ext", 0.0):
        sid = frng.choice(sids)
        st = rp.s.stations[sid]
        cid = frng.choice(sorted(st.state))
        base_rate = st.state[cid].charger.rate
        what = frng.choice(rs.get("ext_kinds", ["set_rate", "scale_rate", "set_price"]))
        # never exactly zero: a vehicle holding exactly 0.0 that "charges" at rate 0 makes vehicle_charge_event raise
        # (truthiness test on the level), which stops the run -- seen, outside every listed property, kept out of workloads
        if what == "set_rate":
            val = round(base_rate * frng.choice([0.1, 0.5, 0.9, 1.0]), 9)
        elif what == "scale_rate":
            val = frng.choice([0.25, 0.5, 0.9, 1.0])
        else:
            val = round(frng.uniform(0, 2), 3) if frng.random() < 0.85 else frng.choice([0.0, round(-frng.uniform(0.01, 0.5), 3)])
        ops.append({"k": "ext", "what": what, "station": sid, "charger": cid, "value": val})
    if rs.get("p_add_request") and frng.random() < rs["p_add_request"]:
        cells = sorted({r["o"] for r in run.spec["requests"]} | {r["d"] for r in run.spec["requests"]} | {v["cell"] for v in run.spec["vehicles"]})
        if cells:
            n = run.scratch.get("ext_req_n", 0)
            run.scratch["ext_req_n"] = n + 1
            op = {"k": "ext", "what": "add_request", "id": "x%03d" % n, "o": frng.choice(cells), "d": frng.choice(cells), "value": frng.choice([0.0, 5.0])}
            if run.spec.get("fleets") and not (rs.get("p_public_request") and frng.random() < rs["p_public_request"]):
                op["fleet"] = frng.choice(sorted(run.spec["fleets"]))
            ops.append(op)
    if rs.get("buggify") and frng.random() < rs.get("p_fail", 0.3):
        for _ in range(frng.choice([1, 1, 2])):
            ops.append({"k": "fail", "site": frng.choice(seams.SITES), "n": frng.randint(0, rs.get("fail_depth", 8))})
    if ops:
        run.plan["ops"].setdefault(key, []).extend(ops)


def execute(plan, oracles=(), generate=False, keep_states=False, on_loaded=None, stop_on_violation=True,
            close=False, step_fn=None):
    """run one plan; returns the Run.  ``step_fn(run, rp)`` may replace the default ``crank(rp, 1)``"""
    run = Run(plan, generate)
    seams.reseed_uuid(plan["seed"])
    rs = plan["run"]
    plan.setdefault("ops", {})
    if rs.get("buggify"):
        run.stats["buggify_bindings"] = seams.install_buggify()
    have_rec = seams.install_traverse_recorder() if rs.get("recorder") else False
    have_app = seams.install_apply_recorder()
    have_step = seams.install_step_recorder() if rs.get("step_recorder") else False
    d = world.materialise(plan["spec"])
    run.dir = d
    spy_log = []
    frng = stream(plan["seed"], "faults") if generate else None
    try:
        try:
            cfg = world.load_config(d, lazy=rs.get("lazy", False), log_events=rs.get("log_events", False))
            gens = build_generators(plan, cfg, run, spy_log) if rs.get("generators") is not None else None
            rp = world.load(d, gens, lazy=rs.get("lazy", False), log_events=rs.get("log_events", False))
        except Exception as e:  # a world HIVE refuses to load is a harness problem (inputs are meant to be well-formed)
            run.aborted = "load: " + "".join(traceback.format_exception_only(type(e), e)).strip()
            run.stats["load_failed"] += 1
            return run
        cap = Capture()
        rp.e.reporter.add_handler(cap)
        run.cap = cap
        run.env = rp.e
        run.rp = rp
        run.initial = rp.s
        if keep_states:
            run.states.append(rp.s)
        if on_loaded:
            on_loaded(run, rp)
        for o in oracles:
            o.start(run, rp)
        nsteps = plan.get("nsteps") or plan["spec"]["nsteps"]
        for k in range(nsteps):
            T = int(rp.s.sim_time)
            key = str(T)
            if generate:
                _gen_faults(run, rp, frng, key)
            step_ops = plan["ops"].get(key, ())
            ext_ops = [o for o in step_ops if o["k"] == "ext"]
            for o in ext_ops:
                rp = _apply_ext(rp, o, run)
            fails = {}
            for o in step_ops:
                if o["k"] == "fail":
                    fails.setdefault(o["site"], set()).add(o["n"])
            if fails and rs.get("buggify") and seams.BUGGIFY.installed:
                seams.BUGGIFY.arm(fails)
            prev = rp.s
            del spy_log[:]
            del seams.TRAVERSALS[:]
            del seams.APPLIED[:]
            del seams.STEP_IO[:]
            nb0 = len(cap.batches)
            try:
                rp2 = step_fn(run, rp) if step_fn else hive_cosim.crank(rp, 1).runner_payload
            except Exception as e:
                run.aborted = "step %d: %s" % (k, "".join(traceback.format_exception(type(e), e, e.__traceback__)[-3:]).strip())
                run.stats["hive_exception"] += 1
                seams.BUGGIFY.disarm()
                ctx = None
                for o in oracles:
                    run.violations.extend(o.aborted(run, k, e, closing=False) or ())
                break
            fired = seams.BUGGIFY.disarm() if (fails and rs.get("buggify")) else []
            for site, n in fired:
                run.stats["injected_update_failure[%s]" % site] += 1
            reports = [r for b in cap.batches[nb0:] for r in b]
            ctx = StepCtx()
            ctx.k, ctx.T, ctx.dt = k, T, int(prev.sim_timestep_duration_seconds)
            ctx.prev, ctx.nxt, ctx.env = prev, rp2.s, rp2.e
            ctx.rp_before, ctx.rp_after = rp, rp2
            ctx.reports = reports
            by = {}
            for r in reports:
                by.setdefault(r.report_type, []).append(r)
            ctx.by_type = by
            ctx.spy = list(spy_log)
            ctx.applied = list(seams.APPLIED) if have_app else None
            ctx.traversals = list(seams.TRAVERSALS) if have_rec else None
            ctx.step_io = seams.STEP_IO[0] if (have_step and seams.STEP_IO) else None
            ctx.fired = fired
            ctx.ext_ops = ext_ops
            ctx.run = run
            _account(run, ctx)
            rp = rp2
            run.rp = rp
            run.steps_done = k + 1
            if keep_states:
                run.states.append(rp.s)
            run.history.update(sim_fp(rp.s, drop_ids=False).encode())
            run.history.update(repr(sorted(canon_report(r, drop_session=False) for r in reports)).encode())
            for o in oracles:
                vs = o.step(ctx)
                if vs:
                    run.violations.extend(vs)
            if run.violations and stop_on_violation:
                break
        if run.aborted is None:
            for o in oracles:
                vs = o.end(run, rp)
                if vs:
                    run.violations.extend(vs)
            if close:
                try:
                    with seams.quiet():
                        hive_cosim.close(rp)
                except Exception as e:
                    # an exception escaping HIVE while it writes its outputs: the run is aborted like one stopped in a step; an
                    # oracle that needs those outputs says what that means for its property (closing=True)
                    run.aborted = "close: %s" % "".join(traceback.format_exception(type(e), e, e.__traceback__)[-3:]).strip()
                    run.stats["hive_exception"] += 1
                    for o in oracles:
                        run.violations.extend(o.aborted(run, run.steps_done, e, closing=True) or ())
                    return run
                for o in oracles:
                    vs = o.closed(run, rp)
                    if vs:
                        run.violations.extend(vs)
        return run
    finally:
        seams.BUGGIFY.disarm()
        _close_files(run)
        world.cleanup(d)


def _close_files(run):
    rp = run.rp
    if rp is None:
        return
    try:
        for h in rp.e.reporter.handlers:
            f = getattr(h, "log_file", None)
            if f is not None and not f.closed:
                f.close()
        for fn in rp.u.pre_step_update:
            rd = getattr(fn, "reader", None)
            if rd is not None and hasattr(rd, "close"):
                rd.close()
    except Exception:
        pass


def _account(run, ctx):
    """count what actually happened in this step: fault kinds, probes, signatures (harness bookkeeping)"""
    st = run.stats
    prev, nxt = ctx.prev, ctx.nxt
    ctx.instructions = []
    ctx.accepted = {}
    if ctx.applied:
        sim_in, instrs, sim_out = ctx.applied[-1]
        ctx.instructions = list(instrs)
        for ins in instrs:
            kind = KIND_OF_CLASS.get(type(ins).__name__, type(ins).__name__)
            v0 = sim_in.vehicles.get(ins.vehicle_id)
            v1 = sim_out.vehicles.get(ins.vehicle_id)
            ok = (v0 is not None and v1 is not None and v1.vehicle_state is not v0.vehicle_state
                  and act(v1) in EXPECT.get(kind, ()))
            ctx.accepted[ins.vehicle_id] = ok
            a0 = act(v0) if v0 is not None else "?"
            run.sigs.add((a0, kind, ok))
            if ok:
                st["instr_accepted"] += 1
                if kind == "DispatchTrip":
                    r = sim_in.requests.get(ins.request_id)
                    if r is not None and r.dispatched_vehicle and r.dispatched_vehicle != ins.vehicle_id:
                        st["double_dispatch"] += 1
                if a0 in ("DispatchTrip", "DispatchStation", "DispatchBase", "Repositioning") and kind.startswith(("Dispatch", "Reposition")):
                    st["redispatch_midroute"] += 1
            else:
                st["instr_rejected"] += 1
                st[_classify_rejection(sim_in, ctx.env, ins, kind)] += 1
    else:
        for r in ctx.reports_of(RT.INSTRUCTION):
            ctx.accepted[r.report["vehicle_id"]] = None
    ctx.instructed = set(ctx.accepted)
    for vid, v1 in nxt.vehicles.items():
        v0 = prev.vehicles.get(vid)
        if v0 is None:
            continue
        a0, a1 = act(v0), act(v1)
        if a1 == "OutOfService" and a0 != "OutOfService" and not (vid in ctx.instructed and ctx.accepted.get(vid)):
            src = {"DispatchTrip": "dispatch", "ServicingTrip": "servicing", "DispatchStation": "station",
                   "DispatchBase": "base", "Repositioning": "reposition"}.get(a0, "idle")
            st["energy_exhausted_" + src] += 1
        if a1 == "ChargeQueueing" and a0 == "DispatchStation":
            st["arrival_full_station"] += 1
    for r in ctx.reports_of(RT.CANCEL_REQUEST_EVENT):
        q = prev.requests.get(r.report["request_id"])
        if q is not None and q.dispatched_vehicle:
            st["expiry_while_enroute"] += 1
    run.abstract.add(abstract_state(nxt))
    st["steps"] += 1


# ---------------------------------------------------------------------------------------------------------
class Oracle:
    """base class: an oracle reports only rules of its own property"""
    prop = "C00"

    def start(self, run, rp):
        pass

    def step(self, ctx):
        return ()

    def end(self, run, rp):
        return ()

    def closed(self, run, rp):
        return ()

    def aborted(self, run, k, exc, closing=False):
        return ()

    def nontrivial(self, run):
        """did this run exercise the property in a non-trivial way (evidence accounting)"""
        return run.steps_done > 0
