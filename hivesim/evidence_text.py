"""Static descriptions that go into the evidence files next to the measured numbers."""

LEVEL = {"C09": "fault_enumeration"}

_GEN = ("each evaluation is one generated world (real scenario directory loaded by HIVE's loader) driven step by step by "
        "a seeded adversary / the built-in generators with seeded domain faults; ")

RULES = {
    "C01": "each evaluation is one scenario executed in K fresh interpreters under different PYTHONHASHSEED values and compared step by step; "
           "distinct = distinct scenario digest; non-trivial = at least one dispatch or charging decision was taken and the run has >= 20 steps",
    "C02": _GEN + "distinct = distinct (world, switches, operations) digest; non-trivial = some vehicle used a plug, a queue or a stall",
    "C03": _GEN + "distinct = distinct plan digest; non-trivial = at least one pickup or cancellation happened",
    "C04": _GEN + "distinct = distinct plan digest; non-trivial = at least two (powertrain, activity) combinations were observed",
    "C05": _GEN + "distinct = distinct plan digest; non-trivial = at least one charging session took place",
    "C06": _GEN + "distinct = distinct plan digest; non-trivial = a vehicle changed position and (street-graph runs) traversals were recorded",
    "C07": _GEN + "distinct = distinct plan digest; non-trivial = vehicles were seen in at least three different activities",
    "C08": _GEN + "plus operation-level histories on a bare SimulationState through simulation_state_ops; distinct = distinct plan / history digest; "
           "non-trivial = at least one vehicle changed cell (runs) or the history has >= 10 effective operations (histories)",
    "C09": _GEN + "at sampled steps every instruction kind x vehicle x candidate target is applied ALONE with the real apply_instructions (finite fault space "
           "enumerated per visited state); distinct = distinct plan digest; non-trivial = instructions were enumerated and competing instructions occurred",
    "C10": _GEN + "worlds always carry a fleets file; distinct = distinct plan digest; non-trivial = a fleet world in which instructions were accepted or pairs emitted",
    "C11": _GEN + "distinct = distinct plan digest; non-trivial = at least one request admitted or one tariff row applied",
    "C12": _GEN + "the monitor runs at every invocation of the real Dispatcher; distinct = distinct plan digest; non-trivial = some invocation had >= 2 eligible vehicles and >= 2 open requests in one fleet",
    "C15": "each evaluation is one scenario loaded freshly several times and executed as split cranks / one crank / batch runner / step loop; "
           "distinct = distinct scenario digest; non-trivial = >= 2 call splits and at least one event in the run",
    "C16": _GEN + "every intermediate state is retained with a deep fingerprint and re-read later; distinct = distinct plan digest; non-trivial = more than one step and states re-read",
    "C17": _GEN + "distinct = distinct plan digest; non-trivial = some vehicle was dispatched to a request",
    "C18": _GEN + "distinct = distinct plan digest; non-trivial = some vehicle was served out of a queue",
    "C19": _GEN + "real EventfulHandler/StatsHandler write event.log and summary_stats.json which are parsed back; distinct = distinct plan digest; non-trivial = the log has lines and a pickup happened",
    "C20": _GEN + "distinct = distinct plan digest; non-trivial = some human driver's availability flipped",
}

COMPONENTS = {
    "real": ["HiveConfig.build + load_simulation (loader, initialisers, fleets, schedules)", "Update pipeline (ChargingPriceUpdate, UpdateRequestsFromFile, CancelRequests, StepSimulation)",
             "all vehicle activities and driver states", "built-in Dispatcher and ChargingFleetManager", "HaversineRoadNetwork / OSMRoadNetwork (generated graphs, Denver)",
             "mechatronics (BEV, ICE, tabular powertrain/powercurve)", "Reporter and handlers (EventfulHandler, StatsHandler)", "hive_cosim.crank / LocalSimulationRunner / runner_payload_ops"],
    "stub": ["scripted adversary InstructionGenerator(s)", "spy wrapper delegating to the real built-in generators", "capture Handler", "uuid4 generator (PRNG driven)",
             "buggify wrappers around simulation_state_ops.modify_*/remove_request (only where stated)", "recording wrappers around traverse and apply_instructions (pass-through)"],
}

ASSUMPTIONS = {
    "*": [
        "sampling: a clean batch is evidence for the explored distribution, not proof",
        "inputs are well-formed: unique ids, files sorted by time, times >= 0, link ids of the form HIVE produces",
        "ring search needs at most ~8 rings (max_search_radius_km tied to the search resolution)",
        "pooling activities are not exercised (unreachable through built-in paths in this tree)",
        "the location grid sim_h3_resolution is HIVE's default 15 in every world (the search resolution is varied 7..12)",
        "externally throttled charger rates are never exactly zero (a vehicle holding exactly 0.0 charging at rate 0 makes vehicle_charge_event raise)",
        "every process runs with PYTHONHASHSEED=0 except the C01 workers, whose hash seed is an explicit input",
    ],
    "C02": ["counts are judged for installed plug types only"],
    "C04": ["a vehicle queued by a hostile instruction for a plug type it can never use is exempt from the idle-expenditure rule"],
    "C06": ["speeds >= 5 km/h, link length >= great-circle distance of its ends", "targets and plug types in this profile are valid for the vehicle"],
    "C08": ["add_* with an id that already exists is API misuse and is not generated"],
    "C11": ["when several rows of one step window name the same station and plug through different keys, any of their prices is accepted (the statement does not order them)"],
    "C12": ["<= 12 vehicles x <= 40 waiting requests per invocation", "member of the fleet is judged per pair (the request grants the vehicle access)",
            "under a fleets configuration every waiting request belongs to exactly one fleet, as the request loader enforces (a request of no fleet "
            "has no reading under 'within each fleet'; the C17 profile does insert such requests)"],
    "C15": ["when end-start is not a multiple of the step only agreement between runner, step loop and equally long crank is asserted"],
    "C16": ["file readers (cursors held in Update) are outside the re-stepping clause"],
    "C18": ["only vehicles that can use the plug type count as overtaken", "vehicles that received an instruction in the step do not count as served from the queue"],
    "C19": ["no injected update failures in this profile (a failed update after a filed report would be an artificial phantom event)"],
}
