"""Delta-debugging over a plan: keep a candidate only if the SAME rule of the SAME property still fires."""
import copy
import json


def _ops_list(plan):
    return [(k, i) for k in sorted(plan["ops"], key=int) for i in range(len(plan["ops"][k]))]


def _without_ops(plan, drop):
    p = copy.deepcopy(plan)
    drop = set(drop)
    for k in list(p["ops"]):
        p["ops"][k] = [o for i, o in enumerate(p["ops"][k]) if (k, i) not in drop]
        if not p["ops"][k]:
            del p["ops"][k]
    return p


def _referenced(plan):
    ref = set()
    for ops in plan["ops"].values():
        for o in ops:
            if o.get("k") == "instr":
                ref.add(o["v"])
                ref.update(str(x) for x in o["a"].values())
            elif o.get("k") == "ext" and "station" in o:
                ref.add(o["station"])
    return ref


def shrink(plan, fails, budget=250, log=None):
    """``fails(plan) -> bool``: does the target violation still occur.  Returns the smallest plan found."""
    tried = [0]

    def test(p):
        if tried[0] >= budget:
            return False
        tried[0] += 1
        try:
            return bool(fails(p))
        except Exception:
            return False

    best = copy.deepcopy(plan)
    # 1. drop operations: whole steps first, then ddmin over single operations
    keys = sorted(best["ops"], key=int)
    for k in reversed(keys):
        cand = copy.deepcopy(best)
        del cand["ops"][k]
        if test(cand):
            best = cand
    ops = _ops_list(best)
    n = 2
    while len(ops) >= 1 and tried[0] < budget:
        chunk = max(1, len(ops) // n)
        reduced = False
        for s in range(0, len(ops), chunk):
            drop = ops[s:s + chunk]
            cand = _without_ops(best, drop)
            if test(cand):
                best = cand
                ops = _ops_list(best)
                n = max(2, n - 1)
                reduced = True
                break
        if not reduced:
            if chunk == 1:
                break
            n = min(len(ops), n * 2)
    # 2. simplify instructions to Idle
    for (k, i) in _ops_list(best):
        o = best["ops"][k][i]
        if o.get("k") == "instr" and o["i"] != "Idle":
            cand = copy.deepcopy(best)
            cand["ops"][k][i] = {"k": "instr", "g": o.get("g", 0), "i": "Idle", "v": o["v"], "a": {}}
            if test(cand):
                best = cand
    # 3. drop entities nobody needs
    spec_lists = ("requests", "vehicles", "stations", "bases")
    for name in spec_lists:
        items = list(best["spec"][name])
        # all at once, then halves, then one by one
        if items:
            cand = copy.deepcopy(best)
            cand["spec"][name] = []
            if test(cand):
                best = cand
                continue
        i = 0
        while i < len(best["spec"][name]) and tried[0] < budget:
            cand = copy.deepcopy(best)
            gone = cand["spec"][name].pop(i)
            gid = gone["id"]
            if name == "stations":
                for b in cand["spec"]["bases"]:
                    if b.get("station") == gid:
                        b["station"] = None
            if name == "bases":
                for v in cand["spec"]["vehicles"]:
                    if v.get("home") == gid:
                        v["home"] = None
                        v["schedule"] = None
            if cand["spec"].get("fleets"):
                for f in cand["spec"]["fleets"].values():
                    for lst in f.values():
                        if gid in lst:
                            lst.remove(gid)
            if test(cand):
                best = cand
            else:
                i += 1
    for opt in ("fleets", "prices", "rate", "schedules"):
        if best["spec"].get(opt):
            cand = copy.deepcopy(best)
            cand["spec"][opt] = None if opt != "schedules" else []
            if opt == "fleets":
                for r in cand["spec"]["requests"]:
                    r.pop("fleet", None)
            if opt == "schedules":
                for v in cand["spec"]["vehicles"]:
                    v["schedule"] = None
                    v["home"] = None
            if test(cand):
                best = cand
    if best["spec"].get("prices"):
        i = 0
        while i < len(best["spec"]["prices"]["rows"]) and tried[0] < budget:
            cand = copy.deepcopy(best)
            cand["spec"]["prices"]["rows"].pop(i)
            if test(cand):
                best = cand
            else:
                i += 1
    # 4. run-level switches toward defaults
    for sw, val in (("buggify", False), ("lazy", False), ("p_ext", 0.0)):
        if best["run"].get(sw) not in (val, None):
            cand = copy.deepcopy(best)
            cand["run"][sw] = val
            if test(cand):
                best = cand
    gens = best["run"].get("generators")
    if gens:
        for g in list(gens):
            cand = copy.deepcopy(best)
            cand["run"]["generators"] = [x for x in cand["run"]["generators"] if x != g]
            if test(cand):
                best = cand
    if log is not None:
        log.append(f"shrink: {tried[0]} candidate runs")
    return best


def plan_size(plan):
    return {"ops": sum(len(v) for v in plan["ops"].values()), "steps": plan.get("nsteps"),
            "vehicles": len(plan["spec"]["vehicles"]), "requests": len(plan["spec"]["requests"]),
            "stations": len(plan["spec"]["stations"]), "bases": len(plan["spec"]["bases"])}


def dump(plan, path):
    with open(path, "w") as f:
        json.dump(plan, f, indent=1, sort_keys=True)
