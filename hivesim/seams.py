"""Seams the simulator owns.  Import this module BEFORE anything from nrel.hive.

* string-hash order: every process re-executes itself with PYTHONHASHSEED=0 (``pin_hashseed``), except the
  C01 workers, whose hash seed is an explicit recorded input.
* per-run random tags: ``uuid.uuid4`` is replaced by a PRNG-driven generator before nrel.hive is imported
  (its modules do ``from uuid import uuid4``).
* HIVE's own chatter: logging disabled, tqdm disabled, warnings silenced; stdout of HIVE calls that print
  (StatsHandler.close, fs.find_scenario) is redirected by the callers with ``quiet()``.
* buggify: wrappers around the five state-update functions of simulation_state_ops, found by identity in
  every loaded nrel.hive module, which return HIVE's own "error as value" tuple at a planned occurrence.
* traversal recorder: wrapper around vehicle_state_ops.traverse.
"""
import contextlib
import io
import os
import random
import sys
import uuid
import warnings

VERIF_DIR = os.path.dirname(os.path.dirname(os.path.abspath(__file__)))


warnings.filterwarnings("ignore")
os.environ.setdefault("TQDM_DISABLE", "1")

_uuid_rng = random.Random(0)


def _uuid4():
    return uuid.UUID(int=_uuid_rng.getrandbits(128), version=4)


uuid.uuid4 = _uuid4


def reseed_uuid(seed):
    _uuid_rng.seed(seed)


import logging  # noqa: E402

import nrel.hive  # noqa: E402,F401  (after the uuid patch)

logging.disable(logging.CRITICAL)

from nrel.hive.state.simulation_state import simulation_state_ops as _ops  # noqa: E402
from nrel.hive.state.vehicle_state import vehicle_state_ops as _vso  # noqa: E402


@contextlib.contextmanager
def quiet():
    """swallow whatever HIVE prints to stdout/stderr inside the block"""
    buf = io.StringIO()
    with contextlib.redirect_stdout(buf), contextlib.redirect_stderr(buf):
        yield buf


# ---------------------------------------------------------------------------------------------------------
# buggify
# ---------------------------------------------------------------------------------------------------------
SITES = ("modify_vehicle", "modify_station", "modify_base", "modify_request", "remove_request")


class _Buggify:
    def __init__(self):
        self.installed = 0
        self.armed = False
        self.targets = {}  # site -> set(occurrence#) for the current step
        self.counts = {}
        self.fired = []

    def arm(self, targets):
        self.armed = True
        self.targets = {k: set(v) for k, v in targets.items()}
        self.counts = {}
        self.fired = []

    def disarm(self):
        fired = self.fired
        self.armed = False
        self.targets = {}
        self.counts = {}
        self.fired = []
        return fired


BUGGIFY = _Buggify()


def _mk(name, orig):
    def wrapper(sim, *a, **k):
        b = BUGGIFY
        if b.armed:
            c = b.counts.get(name, 0)
            b.counts[name] = c + 1
            if c in b.targets.get(name, ()):
                b.fired.append((name, c))
                return Exception(f"injected failure at {name}#{c}"), None
        return orig(sim, *a, **k)

    wrapper.__name__ = name
    wrapper._orig = orig
    return wrapper


def install_buggify():
    """idempotent; returns the number of bindings replaced (0 means the seam no longer exists)"""
    if BUGGIFY.installed:
        return BUGGIFY.installed
    n = 0
    for name in SITES:
        orig = getattr(_ops, name, None)
        if orig is None:
            continue
        w = _mk(name, orig)
        for mname, mod in list(sys.modules.items()):
            if mod is None or not mname.startswith("nrel.hive"):
                continue
            for attr, val in list(vars(mod).items()):
                if val is orig:
                    setattr(mod, attr, w)
                    n += 1
    BUGGIFY.installed = n
    return n


# ---------------------------------------------------------------------------------------------------------
# traversal recorder
# ---------------------------------------------------------------------------------------------------------
TRAVERSALS = []
_rec_installed = False


def install_traverse_recorder():
    global _rec_installed
    if _rec_installed:
        return True
    orig = getattr(_vso, "traverse", None)
    if orig is None:
        return False

    def _rec_traverse(route_estimate, duration_seconds, road_network):
        err, res = orig(route_estimate=route_estimate, duration_seconds=duration_seconds, road_network=road_network)
        TRAVERSALS.append((route_estimate, duration_seconds, err, res))
        return err, res

    _rec_traverse._orig = orig
    _vso.traverse = _rec_traverse
    _rec_installed = True
    return True


# ---------------------------------------------------------------------------------------------------------
# apply_instructions recorder (state before / instructions / state after, inside StepSimulation.update)
# ---------------------------------------------------------------------------------------------------------
APPLIED = []
_app_installed = False


def install_apply_recorder():
    global _app_installed
    if _app_installed:
        return True
    from nrel.hive.state.simulation_state.update import step_simulation as _ss

    orig = getattr(_ss, "apply_instructions", None)
    if orig is None:
        return False

    def _rec_apply(sim, env, instructions):
        out = orig(sim, env, instructions)
        APPLIED.append((sim, tuple(instructions), out))
        return out

    _rec_apply._orig = orig
    _ss.apply_instructions = _rec_apply
    _app_installed = True
    return True


# ---------------------------------------------------------------------------------------------------------
# StepSimulation.update recorder (state handed in / state handed back), pass-through
# ---------------------------------------------------------------------------------------------------------
STEP_IO = []
_step_installed = False


def install_step_recorder():
    global _step_installed
    if _step_installed:
        return True
    try:
        from nrel.hive.state.simulation_state.update.step_simulation import StepSimulation
    except Exception:
        return False
    orig = getattr(StepSimulation, "update", None)
    if orig is None:
        return False

    def _rec_update(self, simulation_state, env):
        out = orig(self, simulation_state, env)
        STEP_IO.append((simulation_state, out[0]))
        return out

    _rec_update._orig = orig
    StepSimulation.update = _rec_update
    _step_installed = True
    return True
