"""Seeded search over many simulated runs: process pool, aggregation in seed order, shrinking, replay files, evidence."""
import copy
import re
import faulthandler
import json
import multiprocessing
import os
import subprocess
import sys
import time
import traceback
from collections import Counter
from concurrent.futures import ProcessPoolExecutor

from . import seams
from .runner import execute, derive_seed
from .profiles import make_plan, oracles_for
from .shrink import shrink, plan_size, dump
from .fingerprint import digest

VERIF = seams.VERIF_DIR
OUT = os.environ.get("HIVESIM_OUT_DIR") or VERIF   # evidence/ and replays/ go here (mutant runs redirect it)
DEFAULT_SEED = 20260926

BUDGET = {
    # property: (quick runs, thorough runs); quick is sized for roughly 30-60 s on 16 idle cores
    "C02": (1800, 36000), "C03": (2000, 40000), "C04": (2500, 50000), "C05": (2000, 40000), "C06": (1800, 30000),
    "C07": (1800, 36000), "C08": (3000, 60000), "C09": (1200, 20000), "C10": (1400, 26000), "C11": (3000, 60000),
    "C12": (2000, 40000), "C16": (1400, 20000), "C17": (1800, 36000), "C18": (1400, 36000), "C19": (1400, 25000),
    "C20": (900, 15000),
}


# ---------------------------------------------------------------------------------------------------------
# the standard engine driver
# ---------------------------------------------------------------------------------------------------------
class EngineDriver:
    name = "engine"

    def __init__(self, prop):
        self.prop = prop

    def budget(self, tier):
        q, t = BUDGET[self.prop]
        return q if tier == "quick" else t

    def run_one(self, seed, want_plan=False):
        prop = self.prop
        plan = make_plan(prop, seed)
        orc = oracles_for(prop, plan)
        run = execute(plan, orc, generate=True, close=(prop == "C19"))
        res = summarise(run, orc, plan)
        if want_plan:
            res["plan"] = plan
        return res

    def violations_of(self, plan):
        plan = copy.deepcopy(plan)
        orc = oracles_for(self.prop, plan)
        run = execute(plan, orc, generate=False, close=(self.prop == "C19"))
        return run.violations, run

    def extra(self, tier, seed):
        return None


def summarise(run, orc, plan):
    dt = plan["spec"]["sim"]["timestep_duration_seconds"]
    return {
        "seed": plan["seed"],
        "viol": [dict(v) for v in run.violations[:4]],
        "stats": dict(run.stats),
        "probes": dict(run.probes),
        "sigs": sorted(run.sigs),
        "abstract": sorted(run.abstract),
        "steps": run.steps_done,
        "sim_s": run.steps_done * dt,
        "nontrivial": bool(run.steps_done and all(o.nontrivial(run) for o in orc)),
        "digest": run.history.hexdigest(),
        "plan_digest": digest((plan["spec"], plan["run"], sorted(plan["ops"].items()))),
        "aborted": run.aborted,
        "size": plan_size(plan),
        "sample": compact(plan),
    }


def compact(plan):
    """a run written out small enough to be read: world shape, controller mix, switches, the first operations"""
    sp, rs = plan["spec"], plan["run"]
    first = []
    for k in sorted(plan["ops"], key=int)[:3]:
        for o in plan["ops"][k][:3]:
            first.append({"t": int(k), **{x: o[x] for x in o if x in ("k", "i", "v", "a", "what", "station", "charger", "value", "site", "n")}})
    return {"network": sp["network"]["kind"], "step_s": sp["sim"]["timestep_duration_seconds"], "start": sp["sim"]["start_time"],
            "cancel_s": sp["sim"]["request_cancel_time_seconds"], "time_format": sp.get("time_format", "epoch"), "search_res": sp["sim"]["sim_h3_search_resolution"],
            "fleets": sorted(sp["fleets"]) if sp.get("fleets") else None, "humans": sum(1 for v in sp["vehicles"] if v.get("schedule")),
            "mech": sorted({v["mech"] for v in sp["vehicles"]}), "prices": (sp["prices"]["by"], len(sp["prices"]["rows"])) if sp.get("prices") else None,
            "generators": rs.get("generators"), "buggify": rs.get("buggify"), "lazy": rs.get("lazy"), "p_ext": rs.get("p_ext"),
            "adversary": {k: v for k, v in (rs.get("adv") or {}).items() if k in ("p_instr", "p_hostile", "kinds")},
            "operations_total": sum(len(v) for v in plan["ops"].values()), "first_operations": first[:6]}


def get_driver(prop):
    if prop == "C01":
        from .c01 import C01Driver
        return C01Driver()
    if prop == "C15":
        from .c15 import C15Driver
        return C15Driver()
    if prop == "C08":
        from .c08ops import C08Driver
        return C08Driver()
    return EngineDriver(prop)


# ---------------------------------------------------------------------------------------------------------
_DRIVER = None


def _init_worker(prop):
    global _DRIVER
    _DRIVER = get_driver(prop)
    faulthandler.enable()


def _task(args):
    i, seed = args
    faulthandler.dump_traceback_later(900, exit=True)
    try:
        t0 = time.time()
        res = _DRIVER.run_one(seed)
        res["i"] = i
        res["wall"] = time.time() - t0
        return res
    except Exception as e:
        return {"i": i, "seed": seed, "harness_error": "".join(traceback.format_exception(type(e), e, e.__traceback__))[-3000:]}
    finally:
        faulthandler.cancel_dump_traceback_later()


def load_known():
    p = os.path.join(VERIF, "known_findings.json")
    if not os.path.exists(p):
        return {"findings": [], "fixed": []}
    with open(p) as f:
        return json.load(f)


def match_known(known, prop, key):
    for f in known.get("findings", ()):
        if f["property"] == prop and (key == f["key"] or key.startswith(f["key"] + "/")):
            return f
    return None


def check(prop, tier="quick", base_seed=None, workers=None, n_override=None, wall_cap=None, out=sys.stdout):
    t_start = time.time()
    base_seed = DEFAULT_SEED if base_seed is None else int(base_seed)
    driver = get_driver(prop)
    n = n_override or driver.budget(tier)
    workers = workers or min(16, os.cpu_count() or 4)
    wall_cap = wall_cap or (1500 if tier == "quick" else 6 * 3600)
    print(f"hivesim check property={prop} tier={tier} VERIF_SEED={base_seed} runs={n} workers={workers}", file=out, flush=True)
    seeds = [(i, derive_seed(base_seed, prop, i)) for i in range(n)]
    results = []
    harness_errors = []
    ctx = multiprocessing.get_context("fork")
    timed_out = False
    with ProcessPoolExecutor(max_workers=workers, mp_context=ctx, initializer=_init_worker, initargs=(prop,)) as ex:
        chunk = max(1, min(16, n // (workers * 4) or 1))
        try:
            for res in ex.map(_task, seeds, chunksize=chunk):
                if "harness_error" in res:
                    harness_errors.append(res)
                else:
                    results.append(res)
                if time.time() - t_start > wall_cap:
                    timed_out = True
                    break
        except Exception as e:  # a dead worker
            harness_errors.append({"i": -1, "seed": -1, "harness_error": repr(e)})
        if timed_out:
            for p in list(getattr(ex, "_processes", {}).values()):
                try:
                    p.terminate()
                except Exception:
                    pass
    results.sort(key=lambda r: r["i"])
    known = load_known()
    extra = None
    try:
        extra = driver.extra(tier, base_seed)
    except Exception as e:
        harness_errors.append({"i": -2, "seed": -2, "harness_error": "extra: " + "".join(traceback.format_exception(type(e), e, e.__traceback__))[-3000:]})

    # ---- violations: group by key, minimise the first of each, replay in a fresh interpreter
    by_key = {}
    for r in results:
        for v in r["viol"]:
            if v["property"] != prop:
                continue
            by_key.setdefault(v["key"], []).append((r, v))
    if extra and extra.get("viol"):
        for v in extra["viol"]:
            by_key.setdefault(v["key"], []).append((extra, v))
    exit_code = 0
    lines = []
    n_viol = 0
    replays = []
    os.makedirs(os.path.join(OUT, "replays", prop), exist_ok=True)
    # ---- corpus: the minimised replay of every confirmed (and since repaired) finding is always re-run
    corpus_dir = os.path.join(VERIF, "corpus", prop)
    corpus_n = corpus_hit = 0
    if os.path.isdir(corpus_dir) and os.environ.get("HIVESIM_NO_CORPUS") != "1":
        for name in sorted(os.listdir(corpus_dir)):
            if not name.endswith(".json"):
                continue
            path = os.path.join(corpus_dir, name)
            corpus_n += 1
            try:
                with open(path) as f:
                    rep = json.load(f)
                if hasattr(driver, "replay"):
                    vs, _ = driver.replay(rep)
                else:
                    vs, _ = driver.violations_of(rep["plan"])
            except Exception as e:
                harness_errors.append({"i": -3, "seed": -3, "harness_error": f"corpus {path}: " + "".join(traceback.format_exception(type(e), e, e.__traceback__))[-2000:]})
                continue
            mine = [x for x in vs if x["key"] == rep["key"] and x["property"] == prop]
            if mine:
                kf = match_known(known, prop, rep["key"])
                if kf is not None:
                    lines.append(f"KNOWN-FINDING: property={prop} {kf.get('what', rep['key'])} (corpus {name})")
                    continue
                corpus_hit += 1
                n_viol += 1
                exit_code = 1
                lines.append(f"VIOLATION property={prop} replay={path}")
                lines.append(f"  rule={rep['key']} (a previously repaired finding is back): {mine[0]['msg'][:400]}")
    for key in sorted(by_key):
        occ = by_key[key]
        n_viol += len(occ)
        kf = match_known(known, prop, key)
        r, v = occ[0]
        if kf is not None:
            lines.append(f"KNOWN-FINDING: property={prop} {kf.get('what', key)} (key {key}; {len(occ)} runs this time, first seed {r['seed']})")
            continue
        if len(replays) >= 3:
            lines.append(f"VIOLATION property={prop} replay={replays[-1]}  # also rule {key} in {len(occ)} runs (not minimised: limit reached)")
            exit_code = 1
            continue
        try:
            path, ok, note = minimise_and_save(driver, prop, r, v, key)
        except Exception as e:
            harness_errors.append({"i": r.get("i", -1), "seed": r["seed"], "harness_error": "minimise: " + "".join(traceback.format_exception(type(e), e, e.__traceback__))[-3000:]})
            continue
        if ok:
            replays.append(path)
            lines.append(f"VIOLATION property={prop} replay={path}")
            lines.append(f"  rule={key} step={v['step']} seed={r['seed']} runs_with_this_rule={len(occ)}: {v['msg'][:400]} {note}")
            exit_code = 1
        else:
            harness_errors.append({"i": r.get("i", -1), "seed": r["seed"], "harness_error": f"replay of {path} did not reproduce {key}: {note}"})

    aborted = [r for r in results if r.get("aborted")]
    wall = time.time() - t_start
    ev = build_evidence(prop, tier, base_seed, driver, results, extra, n_viol, wall, harness_errors, aborted, n)
    ev["coverage"]["corpus"] = {"replays_of_repaired_findings_rerun": corpus_n, "reproduced": corpus_hit}
    os.makedirs(os.path.join(OUT, "evidence"), exist_ok=True)
    with open(os.path.join(OUT, "evidence", f"{prop}.json"), "w") as f:
        json.dump(ev, f, indent=1, sort_keys=True, default=str)
    for l in lines:
        print(l, file=out)
    cov = ev["coverage"]
    print(f"{prop}: runs={cov['evaluations']} nontrivial_distinct={cov['distinct_nontrivial']} steps={cov.get('steps')} "
          f"sim_hours={cov.get('simulated_hours', 0):.1f} states={cov.get('distinct_abstract_states')} violations={n_viol} "
          f"aborted={len(aborted)} wall={wall:.1f}s", file=out)
    if aborted:
        print(f"{prop}: {len(aborted)} runs aborted by an exception escaping HIVE; first (seed {aborted[0]['seed']}): {aborted[0]['aborted'].strip().splitlines()[-1][:200]}", file=out)
    zero = [p for p, c in (cov.get("probes") or {}).items() if c == 0]
    if zero:
        print(f"{prop}: WARNING probes stuck at zero: {zero}", file=out)
    if harness_errors:
        print(f"HARNESS-ERROR property={prop}: {len(harness_errors)} harness errors; first: {harness_errors[0]['harness_error'][-1500:]}", file=out)
        return 2
    if timed_out:
        print(f"HARNESS-ERROR property={prop}: wall cap {wall_cap}s exceeded after {len(results)} runs", file=out)
        return 2
    if exit_code == 0 and cov.get("evaluations", 0) >= 50 and cov.get("distinct_nontrivial", 0) < max(1, 0.02 * cov["evaluations"]):
        # nothing (or next to nothing) that was explored exercised the property: "held" would be vacuous, e.g. on a tree that
        # refuses every instruction; say so instead of passing
        print(f"HARNESS-ERROR property={prop}: only {cov.get('distinct_nontrivial', 0)} of {cov['evaluations']} runs exercised the property "
              f"in a non-trivial way (see nontrivial() of its oracles): nothing was verified", file=out)
        return 2
    if len(aborted) > max(3, 0.2 * max(1, len(results))) and exit_code == 0:
        print(f"HARNESS-ERROR property={prop}: {len(aborted)} of {len(results)} runs aborted by an exception escaping HIVE: {aborted[0]['aborted'][-600:]}", file=out)
        return 2
    return exit_code


def scan(props, runs=150, base_seed=None, workers=None, out=sys.stdout):
    """detect-only sweep used by the mutation scan (tools/mutscan.py): for each property run ``runs`` seeds, stop at the first
    violation, do not minimise, write nothing.  Prints one line per property; exit 1 when something was caught."""
    base_seed = DEFAULT_SEED if base_seed is None else int(base_seed)
    workers = workers or min(16, os.cpu_count() or 4)
    ctx = multiprocessing.get_context("fork")
    caught_any = False
    for prop in props:
        t0 = time.time()
        seeds = [(i, derive_seed(base_seed, prop, i)) for i in range(runs)]
        hit = None
        done = aborted = herr = 0
        with ProcessPoolExecutor(max_workers=workers, mp_context=ctx, initializer=_init_worker, initargs=(prop,)) as ex:
            try:
                for res in ex.map(_task, seeds, chunksize=2):
                    done += 1
                    if "harness_error" in res:
                        herr += 1
                        if hit is None and herr >= 3:
                            hit = ("HARNESS", res["harness_error"].strip().splitlines()[-1][:200])
                            break
                        continue
                    aborted += 1 if res.get("aborted") else 0
                    mine = [v for v in res["viol"] if v["property"] == prop]
                    if mine:
                        hit = (mine[0]["key"], f"seed={res['seed']} step={mine[0]['step']}: {mine[0]['msg'][:220]}")
                        break
            except Exception as e:
                hit = ("HARNESS", repr(e)[:200])
            for pr in list(getattr(ex, "_processes", {}).values()):
                try:
                    pr.terminate()
                except Exception:
                    pass
        print(f"SCAN property={prop} caught={hit[0] if hit else 'none'} runs_done={done} aborted={aborted} wall={time.time() - t0:.1f}s {hit[1] if hit else ''}", file=out, flush=True)
        if hit and hit[0] != "HARNESS":
            caught_any = True
            break
        if aborted > 0.5 * max(1, done) and done >= 20:
            print(f"SCAN property={prop} caught=ABORTS most runs stopped by an exception escaping HIVE", file=out, flush=True)
            caught_any = True
            break
    return 1 if caught_any else 0


def minimise_and_save(driver, prop, r, v, key):
    """regenerate the failing run, shrink it, write the replay file, replay it in a fresh interpreter"""
    rep = driver.minimise(r, v, key) if hasattr(driver, "minimise") else None
    if rep is None:
        full = driver.run_one(r["seed"], want_plan=True)
        plan = full["plan"]
        if not any(x["key"] == key for x in full["viol"]):
            # fall back: the replay of the generated plan
            pass

        def fails(p):
            vs, _ = driver.violations_of(p)
            return any(x["key"] == key and x["property"] == prop for x in vs)

        small = plan
        if fails(plan):
            cand = copy.deepcopy(plan)
            if isinstance(v.get("step"), int) and 0 <= v["step"] < (plan.get("nsteps") or 0) - 1:
                cand["nsteps"] = v["step"] + 1
                cand["ops"] = {k: o for k, o in cand["ops"].items()}
                if fails(cand):
                    small = cand
            small = shrink(small, fails, budget=220)
        vs, run = driver.violations_of(small)
        mine = [x for x in vs if x["key"] == key] or [v]
        rep = {"version": 1, "driver": driver.name, "property": prop, "key": key, "rule": mine[0]["rule"], "step": mine[0]["step"],
               "msg": mine[0]["msg"], "seed": r["seed"], "history_digest": run.history.hexdigest(), "size": plan_size(small),
               "plan": small}
    path = os.path.join(OUT, "replays", prop, re.sub(r'[^A-Za-z0-9_.-]', '_', key) + f"_{r['seed']}.json")
    dump(rep, path)
    ok, note = replay_fresh(path)
    return path, ok, note


def replay_fresh(path):
    """replay in a fresh interpreter; must report the same rule with the same history digest"""
    env = dict(os.environ, PYTHONHASHSEED="0", PYTHONPATH=VERIF + os.pathsep + os.environ.get("PYTHONPATH", ""))
    try:
        p = subprocess.run([sys.executable, "-m", "hivesim", "replay", path], cwd=VERIF, env=env, capture_output=True, text=True, timeout=900)
    except subprocess.TimeoutExpired:
        return False, "replay timed out"
    ok = p.returncode == 1 and "REPRODUCED" in p.stdout
    return ok, ("" if ok else (p.stdout[-500:] + p.stderr[-500:]))


def replay(path, out=sys.stdout):
    with open(path) as f:
        rep = json.load(f)
    driver = get_driver(rep["property"])
    if hasattr(driver, "replay"):
        vs, dig = driver.replay(rep)
    else:
        vs, run = driver.violations_of(rep["plan"])
        dig = run.history.hexdigest()
    mine = [x for x in vs if x["key"] == rep["key"] and x["property"] == rep["property"]]
    print(f"replay {path}: property={rep['property']} rule={rep['key']} seed={rep.get('seed')}", file=out)
    for x in vs[:6]:
        print(f"  violation {x['property']} {x['key']} step={x['step']}: {x['msg'][:500]}", file=out)
    if mine and (rep.get("history_digest") in (None, dig)):
        print(f"REPRODUCED property={rep['property']} rule={rep['key']} step={mine[0]['step']} history_digest={dig}", file=out)
        return 1
    if mine:
        print(f"NOT-DETERMINISTIC: rule reproduced but history digest differs ({dig} vs {rep.get('history_digest')})", file=out)
        return 2
    print("NOT-REPRODUCED", file=out)
    return 0


_ACTS = ("Idle", "Repositioning", "DispatchTrip", "ServicingTrip", "DispatchStation", "ChargingStation", "ChargeQueueing", "DispatchBase",
         "ReserveBase", "ChargingBase", "OutOfService")
_KINDS = ("Idle", "OutOfService", "DispatchTrip", "DispatchStation", "ChargeStation", "ChargeBase", "DispatchBase", "ReserveBase", "Reposition")


def _missing_sigs(sigs):
    """cells of the (activity x instruction kind x outcome) table no run of this batch reached (pooling excluded); a cell can be
    legitimately empty (e.g. an instruction HIVE accepts from every activity has no 'rejected' cell for a present vehicle)"""
    if not sigs:
        return None
    have = {(a, k, bool(o)) for a, k, o in sigs}
    return [f"{a}/{k}/{'accepted' if o else 'rejected'}" for a in _ACTS for k in _KINDS for o in (True, False) if (a, k, o) not in have]


def build_evidence(prop, tier, base_seed, driver, results, extra, n_viol, wall, harness_errors, aborted, n_planned):
    stats = Counter()
    probes = Counter()
    sigs = set()
    abstract = set()
    steps = 0
    sim_s = 0
    nontriv = set()
    for r in results:
        stats.update(r.get("stats") or {})
        probes.update(r.get("probes") or {})
        sigs.update(tuple(s) for s in r.get("sigs") or ())
        abstract.update(r.get("abstract") or ())
        steps += r.get("steps", 0)
        sim_s += r.get("sim_s", 0)
        if r.get("nontrivial"):
            nontriv.add(r.get("plan_digest"))
    samples = []
    for r in results[:3]:
        samples.append({"seed": r["seed"], "size": r.get("size"), "steps": r.get("steps"), "history_digest": r.get("digest"),
                        "sample": r.get("sample"), "faults_fired": {k: v for k, v in (r.get("stats") or {}).items() if k not in ("steps",)}})
    from .evidence_text import RULES, ASSUMPTIONS, COMPONENTS, LEVEL
    fault_keys = [k for k in stats if k not in ("steps", "buggify_bindings", "instr_accepted")]
    cov = {
        "evaluations": len(results),
        "distinct_nontrivial": len(nontriv),
        "rule": RULES.get(prop, ""),
        "samples": samples or [{"note": "no run completed"}],
        "runs_planned": n_planned,
        "steps": steps,
        "simulated_seconds": sim_s,
        "simulated_hours": sim_s / 3600.0,
        "runs_per_hour": (len(results) / wall * 3600.0) if wall > 0 else 0,
        "seeds_per_hour": (len(results) / wall * 3600.0) if wall > 0 else 0,
        "fault_kinds_fired": {k: stats[k] for k in sorted(fault_keys)},
        "instructions_accepted": stats.get("instr_accepted", 0),
        "probes": dict(sorted(probes.items())),
        "distinct_abstract_states": len(abstract),
        "abstract_state_measure": "hash of (sorted multiset of (activity, has route) per vehicle, occupancy of every plug/queue/stall, #waiting requests capped at 5, #assigned requests capped at 3)",
        "distinct_transition_signatures": len(sigs),
        "transition_signature_measure": "(activity before, instruction kind, accepted|rejected)",
        "transition_signatures_not_reached": _missing_sigs(sigs),
        "run_health": {"runs_aborted_by_an_exception_escaping_hive": len(aborted), "harness_errors": len(harness_errors)},
        "components": COMPONENTS,
        "exhaustive": False,
    }
    if prop == "C15":
        cov["abstract_state_measure"] = "distinct per-step fingerprints of the whole SimulationState (instance ids dropped) seen in the compared executions"
    if prop == "C08":
        cov["abstract_state_measure"] += " (simulated runs only; operation histories are counted under fault_kinds_fired.operations)"
    if extra:
        cov.update(extra.get("coverage") or {})
    return {
        "property_id": prop,
        "tier": tier,
        "seed": int(base_seed),
        "level": LEVEL.get(prop, "exploration"),
        "coverage": cov,
        "assumptions": ASSUMPTIONS.get(prop, []) + ASSUMPTIONS["*"],
        "wall_s": round(wall, 2),
        "violations": int(n_viol),
    }
