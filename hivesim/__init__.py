"""hivesim: deterministic simulation with fault injection for NREL/hive (see /verif/DESIGN.md)"""
