"""Sensitivity self-test: apply one small patch to a scratch copy of /repo/nrel (never to /repo), put the copy first on the
import path, run the property's check, expect a VIOLATION, delete the copy.

    python -m hivesim mutants [--only NAME_SUBSTRING] [--runs N] [--keep-corpus]

Patches live in /verif/mutants/*.diff (unified diffs relative to the repository root) and are listed in
/verif/mutants/mutants.json with the properties expected to catch them.  The search itself is tested: the corpus of
minimised replays is switched off unless --keep-corpus is given.
"""
import json
import os
import shutil
import subprocess
import sys
import tempfile
import time

from . import seams

VERIF = seams.VERIF_DIR


def run_mutant(diff_path, props, runs=None, keep_corpus=False, repo="/repo", timeout=1500):
    root = tempfile.mkdtemp(prefix="hivesim_mut_", dir=os.environ.get("HIVESIM_MUT_TMP") or tempfile.gettempdir())
    out = {}
    try:
        shutil.copytree(os.path.join(repo, "nrel"), os.path.join(root, "nrel"), ignore=shutil.ignore_patterns("__pycache__"))
        p = subprocess.run(["patch", "-p1", "-s", "-i", diff_path], cwd=root, capture_output=True, text=True)
        if p.returncode != 0:
            return {"error": "patch failed: " + p.stdout + p.stderr}
        env = dict(os.environ, PYTHONHASHSEED="0", PYTHONPATH=root + os.pathsep + VERIF, HIVESIM_REPO=root,
                   HIVESIM_OUT_DIR=os.path.join(root, "out"), HIVESIM_TMP=os.path.join(root, "tmp"))
        if not keep_corpus:
            env["HIVESIM_NO_CORPUS"] = "1"
        os.makedirs(os.path.join(root, "tmp"))
        # make sure the copy is what gets imported
        chk = subprocess.run([sys.executable, "-c", "import nrel.hive, sys; print(nrel.hive.__file__)"], env=env, cwd=VERIF, capture_output=True, text=True)
        if root not in chk.stdout:
            return {"error": "scratch copy not imported: " + chk.stdout + chk.stderr[-500:]}
        for prop in props:
            t0 = time.time()
            cmd = [sys.executable, "-m", "hivesim", "check", prop, "--tier", "quick"] + (["--runs", str(runs)] if runs else [])
            try:
                r = subprocess.run(cmd, env=env, cwd=VERIF, capture_output=True, text=True, timeout=timeout)
                lines = [l for l in r.stdout.splitlines() if l.startswith(("VIOLATION", "  rule=", "HARNESS-ERROR", "KNOWN-FINDING"))]
                out[prop] = {"exit": r.returncode, "caught": r.returncode == 1 and any(l.startswith("VIOLATION") for l in lines),
                             "lines": lines[:4], "wall_s": round(time.time() - t0, 1), "stderr": r.stderr[-300:] if r.returncode == 2 else ""}
            except subprocess.TimeoutExpired:
                out[prop] = {"exit": None, "caught": False, "lines": ["timeout"], "wall_s": timeout}
        return out
    finally:
        shutil.rmtree(root, ignore_errors=True)


def main(argv):
    import argparse
    ap = argparse.ArgumentParser()
    ap.add_argument("--only", default=None)
    ap.add_argument("--runs", type=int, default=None)
    ap.add_argument("--keep-corpus", action="store_true")
    ap.add_argument("--json", default=None)
    a = ap.parse_args(argv)
    with open(os.path.join(VERIF, "mutants", "mutants.json")) as f:
        listing = json.load(f)["mutants"]
    results = {}
    missed = 0
    for m in listing:
        if a.only and a.only not in m["file"]:
            continue
        res = run_mutant(os.path.join(VERIF, "mutants", m["file"]), m["props"], runs=a.runs, keep_corpus=a.keep_corpus)
        results[m["file"]] = res
        if "error" in res:
            print(f"MUTANT {m['file']}: ERROR {res['error']}")
            missed += 1
            continue
        for prop, r in res.items():
            verdict = "caught" if r["caught"] else "MISSED"
            if not r["caught"]:
                missed += 1
            print(f"MUTANT {m['file']} [{m.get('what', '')}] property={prop}: {verdict} exit={r['exit']} {r['wall_s']}s {r['lines'][1][:160] if len(r['lines']) > 1 else r['lines'][:1]}", flush=True)
    if a.json:
        with open(a.json, "w") as f:
            json.dump(results, f, indent=1)
    print(f"mutants: {len(results)} patches, {missed} missed")
    return 1 if missed else 0
