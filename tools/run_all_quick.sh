#!/bin/bash
# every registered quick check once, in /verif against /repo (this is what writes the committed evidence files)
cd "$(dirname "$0")/.."
rc=0
for p in C01 C02 C03 C04 C05 C06 C07 C08 C09 C10 C11 C12 C15 C16 C17 C18 C19 C20; do
  /usr/bin/time -f "$p %es" /venv/bin/python -m hivesim check $p --tier quick 2>&1 | grep -E "^(C[0-9]+: runs|VIOLATION|  rule=|HARNESS-ERROR|KNOWN-FINDING|C[0-9]+ [0-9.]+s)" | cut -c1-300
  [ ${PIPESTATUS[0]} -ne 0 ] && rc=1
done
exit $rc
