#!/bin/bash
# re-run every archived seeded change against the check of its own property with the current machinery (corpus off)
cd "$(dirname "$0")/.."
for d in seeded/*/; do n=$(basename $d); tools/seeded.py run $n 2>&1 | tail -1 | cut -c1-220; done
