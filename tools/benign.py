#!/venv/bin/python
"""False-alarm self-test: apply each property-preserving patch of /verif/benign to a scratch copy (never to /repo), run the unedited
suite and the listed quick checks on it; every check must exit 0.

    tools/benign.py [name-substring]        -> /verif/benign/results.json
"""
import json
import os
import shutil
import subprocess
import sys
import tempfile
import time

VERIF = os.path.dirname(os.path.dirname(os.path.abspath(__file__)))
sys.path.insert(0, VERIF)
from hivesim.mutants import run_mutant  # noqa: E402
sys.path.insert(0, os.path.join(VERIF, "tools"))
from tools_mutscan_base import BASE_FAIL  # noqa: E402


def suite(diff):
    root = tempfile.mkdtemp(prefix="benign_", dir=os.environ.get("HIVESIM_MUT_TMP") or tempfile.gettempdir())
    try:
        for d in ("nrel", "tests"):
            shutil.copytree(os.path.join("/repo", d), os.path.join(root, d), ignore=shutil.ignore_patterns("__pycache__"))
        shutil.copy("/repo/pyproject.toml", root)
        p = subprocess.run(["patch", "-p1", "-s", "-i", diff], cwd=root, capture_output=True, text=True)
        if p.returncode:
            return "patch failed " + p.stdout
        cmd = ["/venv/bin/python", "-m", "pytest", "-q", "-p", "no:cacheprovider", "--timeout=300"]
        for d in BASE_FAIL:
            cmd += ["--deselect", d]
        r = subprocess.run(cmd, cwd=root, capture_output=True, text=True, timeout=1800)
        return ([l for l in r.stdout.splitlines() if " passed" in l or " failed" in l][-1:] or [r.stdout[-200:]])[0]
    finally:
        shutil.rmtree(root, ignore_errors=True)


def main():
    only = sys.argv[1] if len(sys.argv) > 1 else None
    listing = json.load(open(os.path.join(VERIF, "benign", "benign.json")))["patches"]
    res_p = os.path.join(VERIF, "benign", "results.json")
    results = json.load(open(res_p)) if os.path.exists(res_p) else {}
    bad = 0
    for b in listing:
        if only and only not in b["file"]:
            continue
        diff = os.path.join(VERIF, "benign", b["file"])
        s = suite(diff)
        res = run_mutant(diff, b["props"])
        entry = {"what": b["what"], "suite": s, "at": time.strftime("%Y-%m-%d %H:%M:%S"), "checks": {}}
        if "error" in res:
            entry["error"] = res["error"]
            bad += 1
        else:
            for p, r in res.items():
                entry["checks"][p] = {"exit": r["exit"], "lines": r["lines"][:2], "wall_s": r["wall_s"]}
                ok = r["exit"] == 0
                bad += 0 if ok else 1
                print(f"BENIGN {b['file']} property={p}: {'silent' if ok else 'ALARM'} exit={r['exit']} {r['wall_s']}s {r['lines'][:2] if not ok else ''}", flush=True)
        print(f"BENIGN {b['file']} suite: {s}", flush=True)
        results[b["file"]] = entry
        json.dump(results, open(res_p, "w"), indent=1, sort_keys=True)
    return 1 if bad else 0


if __name__ == "__main__":
    sys.exit(main())
