"""the 8 tests that fail on the unchanged tree in this sandbox (no network / networkx version), deselected when a scratch copy is tested"""
BASE_FAIL = ["tests/test_initialize_simulation.py::TestInitializeSimulation::test_initialize_simulation_with_sampling",
             "tests/test_osm_roadnetwork.py::TestOSMRoadNetwork::test_route",
             "tests/test_routetraversal.py::TestRouteTraversal::test_traverse_with_enough_time",
             "tests/test_routetraversal.py::TestRouteTraversal::test_traverse_without_enough_time",
             "tests/test_sample_functions.py::TestSampleVehicles::test_sample_n_requests_default",
             "tests/test_sample_functions.py::TestSampleVehicles::test_sample_n_vehicles_default",
             "tests/test_sample_functions.py::TestSampleVehicles::test_sample_n_with_failure",
             "tests/test_update_requests_sampling.py::TestUpdateRequestsSampling::test_update"]
