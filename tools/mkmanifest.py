import json
props = ["C01","C02","C03","C04","C05","C06","C07","C08","C09","C10","C11","C12","C15","C16","C17","C18","C19","C20"]
TECH = {
 "C01": "deterministic simulation: same scenario in K fresh interpreters under seeded PYTHONHASHSEED values, per-step fingerprint / event-multiset / summary comparison",
 "C02": "deterministic simulation with fault injection: seeded adversary + injected state-update failures, resource-count ledger recomputed from activities every step",
 "C03": "deterministic simulation with fault injection: request life-cycle automaton over events and state (double dispatch, interrupts, expiry races, energy exhaustion)",
 "C04": "deterministic simulation with fault injection: per-vehicle energy ledger and per-step physical bounds under generated powertrains, chargers and step lengths",
 "C05": "deterministic simulation with fault injection: two-sided energy and money ledgers, tariff and rate changes mid-session",
 "C06": "deterministic simulation with fault injection: kinematic reference model at a recording wrapper around traverse + whole-journey bounded liveness",
 "C07": "deterministic simulation with fault injection: co-location invariants every step and after every enumerated single instruction (remote targets)",
 "C08": "deterministic simulation with fault injection: indexes recomputed from entities after every step, and after every operation of seeded add/move/remove histories",
 "C09": "deterministic simulation; per visited state the finite instruction x target fault space is enumerated and applied alone (world fingerprint unchanged on rejection); precedence of competing generators",
 "C10": "deterministic simulation with fault injection: access matrix from raw membership sets every step, spy on the built-in generators' output, enumerated single instructions",
 "C11": "deterministic simulation of timed input streams (eager/lazy readers, any step length): reference model computed from the CSV content alone",
 "C12": "deterministic simulation as input distribution; independent eligibility filter + optimal assignment (brute force / scipy) at every Dispatcher invocation",
 "C15": "deterministic simulation: freshly loaded copies executed as split cranks / one crank / batch runner / step loop must coincide step by step",
 "C16": "deterministic simulation with fault injection: every intermediate state retained with a deep fingerprint and re-read later; saved states re-stepped twice",
 "C17": "deterministic simulation with fault injection: assignment-record invariant every step under re-dispatch, interrupts, energy exhaustion, injected update failures",
 "C18": "deterministic simulation with fault injection: FIFO reference model per (station, plug type) under contention, permuted ids, forced departures, throttled plugs",
 "C19": "deterministic simulation through the real file-writing handlers: parsed event.log and summary reconciled with the observed state sequence",
 "C20": "deterministic simulation over multi-day horizons and arbitrary step lengths: shift-clock reference model vs availability, events and dispatcher output",
}
LEVEL_TXT = {
 "C09": "the inner loop enumerates the finite space of single instructions (kind x vehicle x every existing / missing target x every plug type) on each sampled reachable state and applies each alone with the real apply_instructions; the states themselves are sampled by seeded simulation. Enumeration is complete per visited state, not over states.",
}
checks = []
for p in props:
    cat = "fault_enumeration" if p == "C09" else "exploration"
    checks.append({
        "property_id": p,
        "quick_cmd": f"/venv/bin/python -m hivesim check {p} --tier quick",
        "thorough_cmd": f"/venv/bin/python -m hivesim check {p} --tier thorough",
        "evidence_file": f"/verif/evidence/{p}.json",
        "replay_cmd_template": "/venv/bin/python -m hivesim replay {path}",
        "engine": "hivesim",
        "level_claimed": {"category": cat,
                          "text": LEVEL_TXT.get(p, "seeded search over generated worlds, controller schedules and domain fault sequences against an independent reference model; a clean batch is evidence for the explored distribution, not proof. Every violation is minimised and replayed in a fresh interpreter before it is reported."),
                          "design_ref": "DESIGN.md section 3 (" + p + ")"},
        "level_note": "trusted base: the harness (hivesim: world generator, adversary, oracles, fingerprints), h3/scipy/numpy used by oracles, PYTHONHASHSEED=0 pinning (except C01 workers); inputs well-formed; see evidence assumptions",
        "technique": TECH[p],
    })
m = {
 "version": 1,
 "setup_cmd": "/venv/bin/python -m hivesim setup",
 "hooks": {
  "guard": "NREL_HIVE_VERIF",
  "enable": "no hooks in /repo: every seam is harness-side (uuid4, PYTHONHASHSEED, instruction generators, reporter handlers, pass-through wrappers installed at run time by /verif/hivesim/seams.py); the guard name is reserved and unused",
  "baseline_off_cmd": "cd /repo && /venv/bin/python -m pytest -ra -q -p no:cacheprovider --timeout=900 --continue-on-collection-errors",
  "source_commits": [],
  "add_only": True
 },
 "engines": [{"name": "hivesim", "path": "/verif/hivesim", "serves_properties": props,
              "kind_free_text": "deterministic discrete-time simulation of the real HIVE engine under a seeded adversary/fault scheduler, with reference-model oracles, delta-debugging shrinker and replay files"}],
 "checks": checks,
 "not_applicable": [
  {"property_id": "C13", "reason": "pure function of (graph, two positions): no schedule, clock, fault, interleaving or I/O for a simulator to vary; deciding it is property-based testing of RoadNetwork.route, not simulation (DESIGN.md section 4)"},
  {"property_id": "C14", "reason": "optimality of one A* query against Dijkstra is a differential test of a pure function of (graph, two links); nothing for deterministic simulation to schedule or fault (DESIGN.md section 4)"}
 ],
 "notes": "exit codes: 0 held on everything explored, 1 VIOLATION (minimised replay written under /verif/replays/<id>/), 2 harness error (never a verdict). VERIF_SEED and VERIF_TIER are honoured. Repaired defects are listed in /verif/known_findings.json (fixed: entries) and their minimised replays under /verif/corpus/<id>/ are re-run by every check."
}
json.dump(m, open("/verif/MANIFEST.json","w"), indent=1)
