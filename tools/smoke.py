import sys, time, traceback
from collections import Counter
from hivesim import seams
from hivesim.profiles import make_plan, oracles_for
from hivesim.runner import execute, derive_seed
prop=sys.argv[1]; n=int(sys.argv[2]); base=int(sys.argv[3]) if len(sys.argv)>3 else 1
t=time.time(); rules=Counter(); first={}; stats=Counter(); probes=Counter(); nt=0; ab=0
for i in range(n):
    seed=derive_seed(base,prop,i)
    plan=make_plan(prop,seed)
    orc=oracles_for(prop,plan)
    try:
        run=execute(plan,orc,generate=True,close=(prop=="C19"))
    except Exception as e:
        rules[("HARNESS",type(e).__name__)]+=1; first.setdefault(("HARNESS",type(e).__name__),(i,traceback.format_exc()[-1500:])); continue
    stats.update(run.stats); probes.update(run.probes)
    if run.aborted: ab+=1; first.setdefault(("ABORT",), (i, run.aborted[-600:]))
    nt+= all(o.nontrivial(run) for o in orc)
    for v in run.violations:
        rules[(v["property"],v["key"])]+=1; first.setdefault((v["property"],v["key"]),(i,v["step"],v["msg"][:300]))
print("runs",n,"time %.1f"%(time.time()-t),"nontrivial",nt,"aborted",ab)
print("stats",dict(stats)); print("probes",dict(probes))
for r,c in rules.most_common(): print(c,r,first.get(r))
if ("ABORT",) in first: print("ABORT",first[("ABORT",)])
