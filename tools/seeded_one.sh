#!/bin/bash
# confirm a sub-agent's change in its worktree, archive it, remove the worktree, run the property's quick check against it
# usage: tools/seeded_one.sh <PROP> <suffix> "<what it needs to manifest>" [worktree]
cd "$(dirname "$0")/.."
p=$1; s=$2; needs=$3; wt=${4:-/tmp/wt_${p}_${s}}; n=${p}_${s}
mkdir -p /root/seedlog
tools/seeded.py confirm $wt $n $p "$needs" > /root/seedlog/confirm_$n.log 2>&1; rc=$?
echo "$n confirm rc=$rc"
git -C /repo worktree remove --force $wt
[ $rc -ne 0 ] && exit $rc
tools/seeded.py run $n 2>&1 | tail -1 | cut -c1-300
