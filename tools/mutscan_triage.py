#!/venv/bin/python
"""Hand triage of the mutants that neither the suite nor the detect-only scan noticed, written as rules so that it can be re-applied:

    tools/mutscan_triage.py        reads /verif/mutscan/not_caught.json (from `tools/mutscan.py report`), writes /verif/mutscan/triage.json

A rule is (file suffix, line range or None, class, reason); the first match wins, specific lines before whole files.  Classes:

  unreachable   code no run can reach in this tree (pooling: DispatchPoolingTripInstruction needs a vehicle that already pools)
  equivalent    same observable behaviour (defensive branch that cannot fire, both branches agree, boundary that cannot be hit)
  out_of_scope  behaviour changes, but none of the 20 properties speaks about it (which station a heuristic prefers, when a driver
                decides to charge or go home, report fields the statements do not name, loader validation, API helpers, logging)
  widened       was missed when scanned; the generator or an oracle was widened because of it and the check catches it now
"""
import json
import os

VERIF = os.path.dirname(os.path.dirname(os.path.abspath(__file__)))
POOL = "pooling states are unreachable: the pooling instruction is accepted only for a vehicle that is already pooling"
RANK = "station ranking / charge-time estimate used to choose where to charge: no property says which station must be chosen"
DRIVER = "when and where a driver or the charging manager decides to charge, go home or reposition: no property demands a particular decision (every decision is still subject to the checked rules when it is applied)"
LOADER = "loader validation / error branch or logging configuration: not reachable with well-formed inputs, or only changes what is logged"
REPORT = "a report or summary field that C19 does not name (C19 names odometer, energy gained, station load, request and cancellation counts, pickup waiting time bounds)"
API = "helper of the co-simulation API for swapping generators / updating the payload, progress bar, output switches: not used by any run"
DEFENSIVE = "defensive branch for an entity that cannot be missing / a value that cannot occur; both versions behave alike on every reachable state"
BOUNDARY = "float boundary (equality of two computed reals) or a tie-break no property fixes"

RULES = [
    # ---- widened (were survivors, now caught)
    ("model/vehicle/mechatronics/bev.py", (145, 145), "widened", "battery counted as empty at 1 kWh: C06 stopped_with_energy / C03 stranded_with_energy were added because of this mutant"),
    ("model/vehicle/mechatronics/ice.py", (123, 123), "widened", "tank counted as empty at 1 gallon: same new rules (C06, C03)"),
    ("model/station/charger_state.py", (50, 50), "widened", "plugs of a second row subtracted: caught by C02 since worlds list a plug type on two rows"),
    ("state/simulation_state/update/step_simulation_ops.py", (65, 68), "widened", "driver updates discarded: caught by C20 (the scan had not mapped C20 to this file)"),
    ("dispatcher/instruction_generator/dispatcher.py", (152, 152), "equivalent", "sort key of the fleets: the `and` variant leaves the set in hash order and is caught by C01 (second pass); the `is None` variant only moves None, which never mixes with names"),
    # ---- unreachable
    ("dispatcher/instruction/instruction_ops.py", None, "unreachable", POOL),
    ("state/vehicle_state/dispatch_ops.py", None, "unreachable", POOL),
    ("dispatcher/instruction/instructions.py", (100, 170), "unreachable", POOL),
    ("model/roadnetwork/route.py", (100, 116), "unreachable", POOL + " (routes_are_connected)"),
    ("util/tuple_ops.py", None, "unreachable", "helpers used by the pooling states or by nothing"),
    ("util/iterators.py", (40, 70), "unreachable", "iterator class used by the sampling updates only (not by the file pipeline)"),
    # ---- out of scope
    ("dispatcher/instruction_generator/assignment_ops.py", (40, 100), "equivalent", "find_assignment: the running solution cost is not read by the dispatcher; the empty-side shortcut and the generic path agree; the upper bound only replaces infinite entries, which a per-fleet cost table never contains (C12 judges the returned pairs against an independent optimum)"),
    ("dispatcher/instruction_generator/assignment_ops.py", None, "out_of_scope", RANK),
    ("model/vehicle/mechatronics/powercurve/powercurve_ops.py", None, "out_of_scope", RANK + " (time_to_full)"),
    ("dispatcher/instruction_generator/charging_fleet_manager.py", None, "out_of_scope", DRIVER),
    ("dispatcher/instruction_generator/instruction_generator_ops.py", None, "out_of_scope", DRIVER),
    ("state/driver_state/driver_instruction_ops.py", None, "out_of_scope", DRIVER),
    ("state/driver_state/human_driver_state/human_unavailable_charge_parameters.py", None, "out_of_scope", DRIVER),
    ("state/driver_state/autonomous_driver_state/autonomous_available.py", None, "out_of_scope", DRIVER),
    ("state/driver_state/human_driver_state/human_driver_state.py", None, "out_of_scope", DRIVER),
    ("state/driver_state/driver_state.py", None, "equivalent", "is_human_driver is not read anywhere"),
    ("model/base.py", (129, 129), "out_of_scope", DRIVER + " (Base.has_available_stall is only a pre-filter for that choice; entering the base re-checks stalls and membership)"),
    ("util/h3_ops.py", (83, 113), "out_of_scope", "nearest-entity search: radius off by one ring, tie-break among equally near entities, validity pre-filter; no property says which entity must be found (what is then done with it is checked)"),
    ("dispatcher/instruction/instructions.py", (340, 363), "out_of_scope", "an OutOfServiceInstruction that is always refused: a refused instruction is legal under C09 (nothing changes)"),
    ("state/vehicle_state/charge_queueing.py", (180, 200), "out_of_scope", "a queue that is never served: C18 forbids serving out of order, no property demands that a waiting vehicle is eventually served"),
    ("model/request/request.py", (236, 250), "out_of_scope", "the fare formula (base price, price per mile, minimum): C03/C05 say the fare is credited once to the right vehicle, not how it is computed"),
    ("reporting/", None, "out_of_scope", REPORT),
    ("state/simulation_state/update/cancel_requests.py", (82, 82), "out_of_scope", REPORT + " (membership string of the cancel event)"),
    ("model/membership.py", (95, 106), "out_of_scope", REPORT + " (Membership.to_json)"),
    ("model/roadnetwork/route.py", (30, 99), "out_of_scope", "route travel-time helper used by the ranking heuristics and WKT output of a route"),
    ("initialization/initialize_simulation.py", None, "out_of_scope", LOADER),
    ("model/roadnetwork/osm/", None, "out_of_scope", LOADER + " (missing speed / length attributes of a graph file)"),
    ("model/sim_time.py", None, "equivalent", "tzinfo is dropped either way for naive times; inputs with +00:00 read the same"),
    ("model/base.py", (105, 105), "out_of_scope", LOADER + " (a station id of one character read as 'none')"),
    ("state/simulation_state/update/update_requests_from_file.py", (159, 163), "out_of_scope", LOADER + " (requests whose fleet column does not fit the fleets file are dropped with a warning; generated inputs always fit)"),
    ("model/station/station.py", (200, 320), "out_of_scope", "on_shift_access is only a pre-filter of the station search"),
    ("model/station/charger_state.py", (115, 130), "out_of_scope", BOUNDARY + " (set_charger_rate refusing a rate equal to the current one / zero)"),
    ("app/hive_cosim.py", None, "out_of_scope", API),
    ("runner/runner_payload_ops.py", None, "out_of_scope", API),
    ("state/simulation_state/update/step_simulation.py", (125, 150), "out_of_scope", API),
    ("state/simulation_state/update/step_simulation_ops.py", (195, 212), "out_of_scope", API),
    # ---- equivalent
    ("state/simulation_state/update/charging_price_update.py", (80, 90), "equivalent", "eager and lazy reading give the same rows (C15 compares them)"),
    ("state/simulation_state/update/update_requests_from_file.py", (60, 66), "equivalent", "eager and lazy reading give the same rows (C15 compares them)"),
    ("state/simulation_state/update/charging_price_update.py", (245, 270), "equivalent", "a region exactly at the search resolution: parent/children at the same resolution are the cell itself, both branches agree"),
    ("model/station/charger_state.py", (60, 70), "equivalent", DEFENSIVE),
    ("model/base.py", (150, 154), "equivalent", DEFENSIVE + " (returning more stalls than exist)"),
    ("state/simulation_state/simulation_state.py", None, "equivalent", DEFENSIVE),
    ("state/vehicle_state/charging_station.py", (220, 232), "equivalent", DEFENSIVE + "; the guard itself (full vehicle) is covered by the reverse patch of fix 3d380cc in /verif/mutants"),
    ("util/dict_ops.py", None, "equivalent", "default sort key of a helper called with an explicit key"),
    ("util/iterators.py", None, "equivalent", "default stop condition that every caller overrides before reading"),
    ("util/h3_ops.py", (215, 225), "equivalent", "snap threshold of 1e-6 of a link: the sign flip moves it by 2e-6 of a link, below one location cell"),
    ("util/time_helpers.py", (9, 9), "out_of_scope", "a shift whose start equals its end (empty or whole day): generated schedules never have one; the statement gives [start, end)"),
    ("util/time_helpers.py", (33, 33), "out_of_scope", "waiting time reported as zero: C19 bounds the reported waiting time, it does not define it"),
    ("model/roadnetwork/linktraversal.py", (128, 128), "equivalent", "a link whose travel time equals the remaining time exactly is split at its end: a zero-length stub remains and is consumed next step; position, odometer and arrival are the same"),
    ("model/vehicle/mechatronics/bev.py", None, "equivalent", BOUNDARY + " (battery_full_threshold / taper cut-off equality)"),
    ("model/vehicle/mechatronics/powercurve/tabular_powercurve.py", None, "equivalent", "one more integration slice of zero length / a branch for a missing curve"),
    ("dispatcher/instruction_generator/dispatcher.py", (70, 82), "out_of_scope", BOUNDARY + " (range exactly equal to a threshold; the statement says 'enough remaining range')"),
    ("dispatcher/instruction_generator/dispatcher.py", (141, 141), "equivalent", "a single fleet treated like no fleets file: access is still enforced pair by pair through the cost table, the matching is the same"),
]


def main():
    surv = json.load(open(os.path.join(VERIF, "mutscan", "not_caught.json")))
    tri, unt = {}, []
    for s in surv:
        f = s["file"].replace("nrel/hive/", "")
        for suffix, rng, cls, why in RULES:
            if (f.endswith(suffix) or f.startswith(suffix)) and (rng is None or rng[0] <= s["line"] <= rng[1]):
                tri[s["id"]] = {"class": cls, "reason": why, "file": f, "line": s["line"], "change": s["change"]}
                break
        else:
            unt.append(s)
    json.dump(tri, open(os.path.join(VERIF, "mutscan", "triage.json"), "w"), indent=1, sort_keys=True)
    cls = {}
    for t in tri.values():
        cls[t["class"]] = cls.get(t["class"], 0) + 1
    print(len(surv), "not caught;", cls, "; untriaged:", len(unt))
    for s in unt:
        print("  UNTRIAGED", s["id"], s["file"], s["line"], s["change"], "|", s["source"][:110])


if __name__ == "__main__":
    main()
