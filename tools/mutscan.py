#!/venv/bin/python
"""Mutation scan: how many small mechanical changes to NREL/hive that still pass its own test suite do the checks notice?

    tools/mutscan.py gen                      enumerate first-order mutants of the files below          -> $WORK/mutants.jsonl
    tools/mutscan.py tests [--limit N] [-j J] stage A: the unedited suite on a scratch copy per mutant   -> $WORK/stageA.jsonl
    tools/mutscan.py scan  [--limit N] [-j J] stage B: detect-only sweep (`hivesim scan`) per survivor   -> $WORK/stageB.jsonl
    tools/mutscan.py report                   summary + list of survivors for triage                    -> /verif/mutscan/

Nothing is applied to /repo: every mutant lives in its own scratch copy under $WORK (default /root/mutscan, outside /repo and
/verif), removed as soon as its stage is done.  A mutant is a textual replacement at a position found with `ast` (comparison
operator, and/or, dropped `not`, +/-, negated condition, off-by-one constant).  Survivors of stage B are NOT automatically
misses: most are equivalent (dead defensive branches, logging, code no property speaks about) and are triaged by hand
(/verif/mutscan/triage.json).
"""
import ast
import fnmatch
import glob
import hashlib
import json
import os
import random
import re
import shutil
import subprocess
import sys
import time
from concurrent.futures import ThreadPoolExecutor

REPO = "/repo"
VERIF = os.path.dirname(os.path.dirname(os.path.abspath(__file__)))
WORK = os.environ.get("MUTSCAN_DIR", "/root/mutscan")
PY = "/venv/bin/python"

# (glob under nrel/hive, properties to try first); the remaining engine properties follow in default order
FILEMAP = [
    ("state/vehicle_state/charging_*.py", "C02 C18 C04 C05 C07 C09 C10 C19"),
    ("state/vehicle_state/charge_queueing.py", "C18 C02 C07 C09 C10"),
    ("state/vehicle_state/dispatch_station.py", "C02 C07 C10 C06 C09 C18"),
    ("state/vehicle_state/dispatch_base.py", "C02 C07 C10 C06 C09"),
    ("state/vehicle_state/reserve_base.py", "C02 C07 C10 C09"),
    ("state/vehicle_state/dispatch_trip.py", "C03 C17 C07 C10 C06 C09 C19"),
    ("state/vehicle_state/servicing_trip.py", "C03 C07 C06 C09 C19 C05"),
    ("state/vehicle_state/idle.py", "C04 C09 C17 C19"),
    ("state/vehicle_state/repositioning.py", "C06 C07 C04 C09"),
    ("state/vehicle_state/out_of_service.py", "C04 C09 C17 C02"),
    ("state/vehicle_state/vehicle_state_ops.py", "C04 C06 C05 C19 C03 C17 C07"),
    ("state/vehicle_state/vehicle_state.py", "C09 C02 C06 C04"),
    ("state/vehicle_state/dispatch_ops.py", "C03 C17 C07"),
    ("state/entity_state/*.py", "C09 C02 C17"),
    ("state/simulation_state/simulation_state_ops.py", "C08 C03 C16 C12 C02"),
    ("state/simulation_state/simulation_state.py", "C08 C12 C18 C03"),
    ("util/dict_ops.py", "C08 C16 C09 C03"),
    ("util/h3_ops.py", "C08 C12 C10 C06"),
    ("util/tuple_ops.py", "C18 C09 C12"),
    ("util/iterators.py", "C11 C03 C15"),
    ("util/time_helpers.py", "C19 C20 C11"),
    ("state/simulation_state/update/cancel_requests.py", "C11 C03 C19 C17"),
    ("state/simulation_state/update/update_requests_from_file.py", "C11 C03 C19"),
    ("state/simulation_state/update/charging_price_update.py", "C11 C05 C19"),
    ("state/simulation_state/update/update.py", "C11 C15 C03"),
    ("state/simulation_state/update/step_simulation.py", "C09 C18 C20 C15 C16 C02"),
    ("state/simulation_state/update/step_simulation_ops.py", "C09 C18 C20 C02 C16 C15"),
    ("state/driver_state/**/*.py", "C20 C09 C12 C10 C02 C04"),
    ("dispatcher/instruction_generator/dispatcher.py", "C12 C10 C17 C20"),
    ("dispatcher/instruction_generator/assignment_ops.py", "C12 C10 C18 C16"),
    ("dispatcher/instruction_generator/charging_fleet_manager.py", "C10 C18 C02 C04"),
    ("dispatcher/instruction_generator/instruction_generator_ops.py", "C09 C10 C12 C18 C02"),
    ("dispatcher/instruction/instructions.py", "C09 C02 C10 C07 C03"),
    ("dispatcher/instruction/instruction_ops.py", "C09 C10 C02"),
    ("model/station/*.py", "C02 C05 C11 C18 C10 C19"),
    ("model/base.py", "C02 C10 C07"),
    ("model/membership.py", "C10 C12 C18"),
    ("model/vehicle/mechatronics/*.py", "C04 C05 C06 C03 C12 C19"),
    ("model/vehicle/mechatronics/powertrain/*.py", "C04 C05"),
    ("model/vehicle/mechatronics/powercurve/*.py", "C04 C05 C16"),
    ("model/vehicle/vehicle.py", "C04 C05 C06 C03 C19"),
    ("model/vehicle/schedules/*.py", "C20"),
    ("model/request/request.py", "C03 C17 C11 C05 C12"),
    ("model/sim_time.py", "C11 C20 C19 C15"),
    ("model/roadnetwork/linktraversal.py", "C06 C07 C04"),
    ("model/roadnetwork/routetraversal.py", "C06 C07 C04"),
    ("model/roadnetwork/route.py", "C06 C04 C12"),
    ("model/roadnetwork/link.py", "C06 C07"),
    ("model/roadnetwork/haversine_roadnetwork.py", "C06 C07"),
    ("model/roadnetwork/osm/osm_roadnetwork.py", "C06 C07"),
    ("model/roadnetwork/osm/osm_road_network_link_helper.py", "C06 C07"),
    ("reporting/vehicle_event_ops.py", "C19 C05 C20"),
    ("reporting/reporter.py", "C19 C15"),
    ("reporting/reporter_ops.py", "C19 C20"),
    ("reporting/handler/eventful_handler.py", "C19"),
    ("reporting/handler/stats_handler.py", "C19"),
    ("reporting/handler/summary_stats.py", "C19"),
    ("runner/local_simulation_runner.py", "C15 C19"),
    ("runner/runner_payload_ops.py", "C15"),
    ("app/hive_cosim.py", "C15 C19"),
    ("initialization/initialize_simulation.py", "C10 C08 C02 C20"),
]
ENGINE_ORDER = "C02 C03 C04 C05 C06 C07 C08 C09 C10 C11 C12 C16 C17 C18 C19 C20 C15".split()
BASE_FAIL = ["tests/test_initialize_simulation.py::TestInitializeSimulation::test_initialize_simulation_with_sampling",
             "tests/test_osm_roadnetwork.py::TestOSMRoadNetwork::test_route",
             "tests/test_routetraversal.py::TestRouteTraversal::test_traverse_with_enough_time",
             "tests/test_routetraversal.py::TestRouteTraversal::test_traverse_without_enough_time",
             "tests/test_sample_functions.py::TestSampleVehicles::test_sample_n_requests_default",
             "tests/test_sample_functions.py::TestSampleVehicles::test_sample_n_vehicles_default",
             "tests/test_sample_functions.py::TestSampleVehicles::test_sample_n_with_failure",
             "tests/test_update_requests_sampling.py::TestUpdateRequestsSampling::test_update"]   # the 8 that fail on the unchanged tree

CMP = {ast.Lt: ("<", "<="), ast.LtE: ("<=", "<"), ast.Gt: (">", ">="), ast.GtE: (">=", ">"), ast.Eq: ("==", "!="), ast.NotEq: ("!=", "=="),
       ast.Is: ("is", "is not"), ast.IsNot: ("is not", "is"), ast.In: ("in", "not in"), ast.NotIn: ("not in", "in")}


def files():
    seen = []
    for pat, props in FILEMAP:
        for f in sorted(glob.glob(os.path.join(REPO, "nrel/hive", pat), recursive=True)):
            if f.endswith("__init__.py") or "pooling" in f:
                continue
            if f not in [x for x, _ in seen]:
                seen.append((f, props.split()))
    return seen


def _skip_nodes(tree):
    """nodes inside logging calls, f-strings, error-message construction, annotations, docstrings, asserts"""
    skip = set()

    def mark(n):
        for x in ast.walk(n):
            skip.add(id(x))

    for n in ast.walk(tree):
        if isinstance(n, ast.Call) and isinstance(n.func, ast.Attribute) and isinstance(n.func.value, ast.Name) and n.func.value.id in ("log", "logging", "warnings"):
            mark(n)
        elif isinstance(n, ast.JoinedStr):
            mark(n)
        elif isinstance(n, ast.Assign) and len(n.targets) == 1 and isinstance(n.targets[0], ast.Name) and n.targets[0].id in ("msg", "context", "message", "error_msg"):
            mark(n)
        elif isinstance(n, (ast.Raise, ast.Assert)):
            mark(n)
        elif isinstance(n, ast.AnnAssign) and n.annotation is not None:
            mark(n.annotation)
        elif isinstance(n, (ast.FunctionDef, ast.AsyncFunctionDef)):
            if n.returns is not None:
                mark(n.returns)
            for a in n.args.args + n.args.kwonlyargs:
                if a.annotation is not None:
                    mark(a.annotation)
            if n.name in ("__repr__", "__str__"):
                mark(n)
        elif isinstance(n, ast.If) and isinstance(n.test, ast.Name) and n.test.id == "TYPE_CHECKING":
            mark(n)
    return skip


def gen_file(path):
    src = open(path).read()
    lines = src.split("\n")
    tree = ast.parse(src)
    skip = _skip_nodes(tree)
    out = []

    def between(a, b):
        """text between the end of node a and the start of node b when both are on one line"""
        if a.end_lineno != b.lineno:
            return None
        return a.end_lineno, a.end_col_offset, b.col_offset

    def add(kind, lineno, c0, c1, new, note):
        line = lines[lineno - 1]
        # ast column offsets are in utf-8 bytes; the sources are ascii
        old = line[c0:c1]
        if old == new:
            return
        out.append({"file": os.path.relpath(path, REPO), "line": lineno, "c0": c0, "c1": c1, "old": old, "new": new, "kind": kind, "note": note})

    for n in ast.walk(tree):
        if id(n) in skip:
            continue
        if isinstance(n, ast.Compare) and len(n.ops) == 1 and type(n.ops[0]) in CMP:
            pos = between(n.left, n.comparators[0])
            if pos:
                ln, c0, c1 = pos
                a, b = CMP[type(n.ops[0])]
                seg = lines[ln - 1][c0:c1]
                if re.fullmatch(r"\s*" + re.escape(a).replace(r"\ ", r"\s+") + r"\s*", seg):
                    add("cmp", ln, c0, c1, f" {b} ", f"{a} -> {b}")
        elif isinstance(n, ast.BoolOp) and len(n.values) >= 2:
            pos = between(n.values[0], n.values[1])
            if pos:
                ln, c0, c1 = pos
                seg = lines[ln - 1][c0:c1]
                a, b = ("and", "or") if isinstance(n.op, ast.And) else ("or", "and")
                if seg.strip() == a:
                    add("bool", ln, c0, c1, f" {b} ", f"{a} -> {b}")
        elif isinstance(n, ast.UnaryOp) and isinstance(n.op, ast.Not):
            line = lines[n.lineno - 1]
            if line[n.col_offset:n.col_offset + 4] == "not ":
                add("not", n.lineno, n.col_offset, n.col_offset + 4, "", "not dropped")
        elif isinstance(n, ast.BinOp) and isinstance(n.op, (ast.Add, ast.Sub)):
            if any(isinstance(x, (ast.Constant, ast.JoinedStr)) and isinstance(getattr(x, "value", None), str) for x in (n.left, n.right)):
                continue
            if isinstance(n.left, (ast.Tuple, ast.List)) or isinstance(n.right, (ast.Tuple, ast.List)):
                continue
            pos = between(n.left, n.right)
            if pos:
                ln, c0, c1 = pos
                seg = lines[ln - 1][c0:c1]
                a, b = ("+", "-") if isinstance(n.op, ast.Add) else ("-", "+")
                if seg.strip() == a:
                    add("arith", ln, c0, c1, f" {b} ", f"{a} -> {b}")
        if isinstance(n, (ast.If, ast.IfExp, ast.While)):
            t = n.test
            if id(t) in skip or isinstance(t, (ast.Compare, ast.BoolOp)) or (isinstance(t, ast.UnaryOp) and isinstance(t.op, ast.Not)):
                continue
            if t.lineno == t.end_lineno:
                seg = lines[t.lineno - 1][t.col_offset:t.end_col_offset]
                add("negate", t.lineno, t.col_offset, t.end_col_offset, f"not ({seg})", "condition negated")
        if isinstance(n, ast.Compare) and len(n.ops) == 1:
            c = n.comparators[0]
            if isinstance(c, ast.Constant) and type(c.value) is int and c.value in (0, 1) and c.lineno == c.end_lineno:
                add("const", c.lineno, c.col_offset, c.end_col_offset, str(c.value + 1), f"{c.value} -> {c.value + 1}")
    for m in out:
        m["id"] = hashlib.sha1(f"{m['file']}:{m['line']}:{m['c0']}:{m['kind']}:{m['new']}".encode()).hexdigest()[:10]
    return out


SIM_UPDATES = ("modify_vehicle", "modify_station", "modify_base", "modify_request", "remove_request", "add_request", "add_request_safe")
PAIR_METHODS = ("return_charger", "checkout_charger", "enqueue_for_charger", "dequeue_for_charger", "return_stall", "update_prices")   # (error, entity)
SELF_METHODS = ("checkout_stall", "receive_payment", "send_payment", "tick_energy_expended", "tick_energy_gained", "tick_distance_traveled_km",
                "assign_dispatched_vehicle", "unassign_dispatched_vehicle", "modify_energy", "modify_vehicle_state", "modify_position",
                "modify_driver_state", "set_charge_target", "add_passengers", "drop_off_passenger", "update_route", "tick_charge_time")


def gen_file2(path):
    """operator set 2 -- forgotten bookkeeping: (kwdrop) one keyword of a `_replace(...)` / `replace(...)` call dropped, so that field keeps
    its old value; (updrop) the result of one functional state update thrown away: `err, s2 = modify_x(s1, e)` -> `err, s2 = (None, s1)`,
    `err, st2 = st.return_charger(c)` -> `(None, st)`, `v2 = v.send_payment(x)` -> `v2 = v`"""
    src = open(path).read()
    lines = src.split("\n")
    tree = ast.parse(src)
    skip = _skip_nodes(tree)
    out = []

    def add(kind, lineno, c0, c1, new, note):
        old = lines[lineno - 1][c0:c1]
        if old != new:
            out.append({"file": os.path.relpath(path, REPO), "line": lineno, "c0": c0, "c1": c1, "old": old, "new": new, "kind": kind, "note": note})

    def name_of(f):
        return f.attr if isinstance(f, ast.Attribute) else (f.id if isinstance(f, ast.Name) else None)

    for n in ast.walk(tree):
        if id(n) in skip:
            continue
        if isinstance(n, ast.Call) and name_of(n.func) in ("_replace", "replace") and n.keywords:
            if name_of(n.func) == "replace" and isinstance(n.func, ast.Attribute) and not (isinstance(n.func.value, ast.Name) and n.func.value.id == "dataclasses"):
                continue   # str.replace and friends
            for kw in n.keywords:
                if kw.arg is None or kw.arg == "instance_id" or kw.lineno != kw.end_lineno:
                    continue
                line = lines[kw.lineno - 1]
                c0, c1 = kw.col_offset, kw.end_col_offset
                mm = re.match(r"\s*,\s*", line[c1:])
                if mm:
                    c1 += mm.end()
                add("kwdrop", kw.lineno, c0, c1, "", f"keyword {kw.arg} of {name_of(n.func)}() dropped")
        if isinstance(n, ast.Call):
            c = n
            fn = name_of(c.func)
            seg = lambda x: lines[x.lineno - 1][x.col_offset:x.end_col_offset] if x.lineno == x.end_lineno else None
            new = None
            if fn in SIM_UPDATES and c.args and seg(c.args[0]):
                new = f"(None, {seg(c.args[0])})"
            elif fn in PAIR_METHODS and isinstance(c.func, ast.Attribute) and seg(c.func.value):
                new = f"(None, {seg(c.func.value)})"
            elif fn in SELF_METHODS and isinstance(c.func, ast.Attribute) and seg(c.func.value):
                new = seg(c.func.value)
            if new and c.lineno == c.end_lineno:
                add("updrop", c.lineno, c.col_offset, c.end_col_offset, new, f"result of {fn}() thrown away")
            elif new:
                out.append({"file": os.path.relpath(path, REPO), "line": c.lineno, "eline": c.end_lineno, "c0": c.col_offset, "c1": c.end_col_offset,
                            "old": "<multi-line call>", "new": new, "kind": "updrop", "note": f"result of {fn}() thrown away"})
    for m in out:
        m["id"] = hashlib.sha1(f"{m['file']}:{m['line']}:{m['c0']}:{m['kind']}:{m['new']}".encode()).hexdigest()[:10]
    return out


OPS = os.environ.get("MUTSCAN_OPS", "1")
OUTDIR = "mutscan" if OPS == "1" else "mutscan" + OPS


def cmd_gen(args):
    os.makedirs(WORK, exist_ok=True)
    allm = []
    for f, props in files():
        ms = gen_file(f) if OPS == "1" else gen_file2(f)
        for m in ms:
            m["props"] = props
        allm += ms
    rnd = random.Random(20260926)
    rnd.shuffle(allm)
    with open(os.path.join(WORK, "mutants.jsonl"), "w") as fh:
        for m in allm:
            fh.write(json.dumps(m) + "\n")
    by = {}
    for m in allm:
        by[m["kind"]] = by.get(m["kind"], 0) + 1
    print(len(allm), "mutants in", len(files()), "files", by)


def load(name):
    p = os.path.join(WORK, name)
    if not os.path.exists(p):
        return []
    return [json.loads(l) for l in open(p) if l.strip()]


def apply(m, root):
    p = os.path.join(root, m["file"])
    lines = open(p).read().split("\n")
    if "eline" in m:   # replacement spanning several lines (operator set 2)
        first, last = lines[m["line"] - 1], lines[m["eline"] - 1]
        lines[m["line"] - 1:m["eline"]] = [first[:m["c0"]] + m["new"] + last[m["c1"]:]]
        open(p, "w").write("\n".join(lines))
        return
    line = lines[m["line"] - 1]
    assert line[m["c0"]:m["c1"]] == m["old"], (line, m)
    lines[m["line"] - 1] = line[:m["c0"]] + m["new"] + line[m["c1"]:]
    open(p, "w").write("\n".join(lines))


def stage_a(m):
    root = os.path.join(WORK, "a_" + m["id"])
    shutil.rmtree(root, ignore_errors=True)
    os.makedirs(root)
    try:
        shutil.copytree(os.path.join(REPO, "nrel"), os.path.join(root, "nrel"), ignore=shutil.ignore_patterns("__pycache__"))
        shutil.copytree(os.path.join(REPO, "tests"), os.path.join(root, "tests"), ignore=shutil.ignore_patterns("__pycache__"))
        for f in ("pyproject.toml", "setup.py"):
            if os.path.exists(os.path.join(REPO, f)):
                shutil.copy(os.path.join(REPO, f), root)
        apply(m, root)
        env = dict(os.environ, PYTHONDONTWRITEBYTECODE="1", PYTHONHASHSEED="0")
        chk = subprocess.run([PY, "-c", "import nrel.hive; print(nrel.hive.__file__)"], cwd=root, env=env, capture_output=True, text=True, timeout=120)
        if root not in chk.stdout:
            return {"id": m["id"], "a": "import_failed", "detail": (chk.stdout + chk.stderr)[-300:]}
        cmd = [PY, "-m", "pytest", "-q", "-x", "-p", "no:cacheprovider", "--timeout=60", "--continue-on-collection-errors"]
        for d in BASE_FAIL:
            cmd += ["--deselect", d]
        t0 = time.time()
        try:
            r = subprocess.run(cmd, cwd=root, env=env, capture_output=True, text=True, timeout=900)
        except subprocess.TimeoutExpired:
            return {"id": m["id"], "a": "killed_by_tests", "detail": "timeout"}
        tail = [l for l in r.stdout.splitlines() if " passed" in l or " failed" in l or " error" in l][-1:] or [r.stdout[-200:]]
        ok = r.returncode == 0 and " failed" not in tail[0] and " error" not in tail[0]
        return {"id": m["id"], "a": "survived_tests" if ok else "killed_by_tests", "detail": tail[0][:120], "wall": round(time.time() - t0, 1)}
    except Exception as e:
        return {"id": m["id"], "a": "error", "detail": repr(e)[:300]}
    finally:
        shutil.rmtree(root, ignore_errors=True)


def run_stage(name, fn, todo, jobs):
    done = {r["id"] for r in load(name)}
    todo = [m for m in todo if m["id"] not in done]
    print(f"{name}: {len(todo)} to do, {len(done)} done already", flush=True)
    with open(os.path.join(WORK, name), "a") as fh, ThreadPoolExecutor(max_workers=jobs) as ex:
        for i, r in enumerate(ex.map(fn, todo)):
            fh.write(json.dumps(r) + "\n")
            fh.flush()
            if i % 20 == 0:
                print(f"  {i + 1}/{len(todo)} {r}", flush=True)


def cmd_tests(args):
    ms = load("mutants.jsonl")
    if args.limit:
        ms = ms[:args.limit]
    run_stage("stageA.jsonl", stage_a, ms, args.jobs or 16)


RUNS = 150
ALL_PROPS = False
SKIP_FILES = ("osm/osm_roadnetwork.py", "dispatch_ops.py")   # logging of missing attributes; pooling only (unreachable)


def stage_b(m):
    root = os.path.join(WORK, "b_" + m["id"])
    shutil.rmtree(root, ignore_errors=True)
    os.makedirs(os.path.join(root, "tmp"))
    try:
        shutil.copytree(os.path.join(REPO, "nrel"), os.path.join(root, "nrel"), ignore=shutil.ignore_patterns("__pycache__"))
        apply(m, root)
        env = dict(os.environ, PYTHONHASHSEED="0", PYTHONPATH=root + os.pathsep + VERIF, HIVESIM_REPO=root, HIVESIM_OUT_DIR=os.path.join(root, "out"),
                   HIVESIM_TMP=os.path.join(root, "tmp"), HIVESIM_NO_CORPUS="1", PYTHONDONTWRITEBYTECODE="1")
        # the properties that speak about this file first; the others only on request (--all-props): a mutant that survives the
        # checks written for its own file has practically never been caught by an unrelated one, and survivors cost the most
        props = list(m["props"]) + ([p for p in ENGINE_ORDER if p not in m["props"]] if ALL_PROPS else [])
        t0 = time.time()
        try:
            r = subprocess.run([PY, "-m", "hivesim", "scan", ",".join(props), "--runs", str(RUNS)], cwd=VERIF, env=env, capture_output=True, text=True, timeout=3000)
        except subprocess.TimeoutExpired:
            return {"id": m["id"], "b": "caught", "by": "timeout", "detail": "scan timed out (hang)"}
        scans = [l for l in r.stdout.splitlines() if l.startswith("SCAN")]
        hit = [l for l in scans if "caught=none" not in l and "caught=HARNESS" not in l]
        har = [l for l in scans if "caught=HARNESS" in l]
        res = {"id": m["id"], "wall": round(time.time() - t0, 1), "tried": len(scans)}
        if r.returncode not in (0, 1) or (not scans):
            res.update(b="error", detail=(r.stdout + r.stderr)[-400:])
        elif hit:
            mm = re.match(r"SCAN property=(\S+) caught=(\S+)", hit[0])
            res.update(b="caught", by=mm.group(1), key=mm.group(2), detail=hit[0][:400])
        elif har:
            res.update(b="caught", by="HARNESS", key="harness_error", detail=har[0][:400])
        else:
            res.update(b="survived")
        return res
    except Exception as e:
        return {"id": m["id"], "b": "error", "detail": repr(e)[:300]}
    finally:
        shutil.rmtree(root, ignore_errors=True)


def cmd_scan(args):
    global RUNS, ALL_PROPS
    RUNS = args.runs
    ALL_PROPS = args.all_props
    a = {r["id"]: r for r in load("stageA.jsonl")}
    ms = [m for m in load("mutants.jsonl") if a.get(m["id"], {}).get("a") == "survived_tests"]
    ms = [m for m in ms if not m["file"].endswith(SKIP_FILES)]
    if args.only:
        ms = [m for m in ms if args.only in m["file"]]
    if args.limit:
        ms = ms[:args.limit]
    run_stage("stageB.jsonl", stage_b, ms, args.jobs or 2)


CORE = ("state/vehicle_state/", "state/simulation_state/simulation_state_ops.py", "util/dict_ops.py", "model/station/", "model/vehicle/vehicle.py",
        "model/vehicle/mechatronics/bev.py", "model/vehicle/mechatronics/ice.py", "model/request/", "model/roadnetwork/linktraversal.py",
        "model/roadnetwork/routetraversal.py")
C01_FILES = ("dispatcher.py", "step_simulation.py", "step_simulation_ops.py", "h3_ops.py", "dict_ops.py", "simulation_state.py",
             "driver_instruction_ops.py", "charging_fleet_manager.py", "instruction_generator_ops.py", "tuple_ops.py")


def stage_c(m):
    """second pass over a survivor of stage B: the properties stage B did not try (all of them for the core files), and the full
    C01 quick check for files where an iteration order could leak"""
    root = os.path.join(WORK, "c_" + m["id"])
    shutil.rmtree(root, ignore_errors=True)
    os.makedirs(os.path.join(root, "tmp"))
    try:
        shutil.copytree(os.path.join(REPO, "nrel"), os.path.join(root, "nrel"), ignore=shutil.ignore_patterns("__pycache__"))
        apply(m, root)
        env = dict(os.environ, PYTHONHASHSEED="0", PYTHONPATH=root + os.pathsep + VERIF, HIVESIM_REPO=root, HIVESIM_OUT_DIR=os.path.join(root, "out"),
                   HIVESIM_TMP=os.path.join(root, "tmp"), HIVESIM_NO_CORPUS="1", PYTHONDONTWRITEBYTECODE="1")
        rel = m["file"].replace("nrel/hive/", "")
        now = next((p.split() for pat, p in FILEMAP if fnmatch.fnmatch(rel, pat.replace("**/", "*"))), m["props"])
        extra = [p for p in now if p not in m["props"]]
        if rel.startswith(CORE) or rel in CORE:
            extra += [p for p in ENGINE_ORDER if p not in m["props"] and p not in extra]
        res = {"id": m["id"], "extra": extra}
        t0 = time.time()
        if extra:
            r = subprocess.run([PY, "-m", "hivesim", "scan", ",".join(extra), "--runs", str(RUNS)], cwd=VERIF, env=env, capture_output=True, text=True, timeout=3000)
            scans = [l for l in r.stdout.splitlines() if l.startswith("SCAN")]
            hit = [l for l in scans if "caught=none" not in l and "caught=HARNESS" not in l]
            if hit:
                mm = re.match(r"SCAN property=(\S+) caught=(\S+)", hit[0])
                res.update(c="caught", by=mm.group(1), key=mm.group(2), detail=hit[0][:400], wall=round(time.time() - t0, 1))
                return res
            if any("caught=HARNESS" in l for l in scans) or r.returncode not in (0, 1):
                res.update(c="error", detail=(r.stdout + r.stderr)[-400:])
                return res
        if rel.endswith(C01_FILES):
            r = subprocess.run([PY, "-m", "hivesim", "check", "C01", "--tier", "quick"], cwd=VERIF, env=env, capture_output=True, text=True, timeout=3000)
            res["c01"] = r.returncode
            if r.returncode == 1:
                line = [l for l in r.stdout.splitlines() if l.startswith("  rule=")][:1]
                res.update(c="caught", by="C01", key="C01/diverge", detail=(line or [""])[0][:300], wall=round(time.time() - t0, 1))
                return res
            if r.returncode == 2:
                res.update(c="error", detail=r.stdout[-400:])
                return res
        res.update(c="survived", wall=round(time.time() - t0, 1))
        return res
    except Exception as e:
        return {"id": m["id"], "c": "error", "detail": repr(e)[:300]}
    finally:
        shutil.rmtree(root, ignore_errors=True)


def cmd_rescan(args):
    global RUNS
    RUNS = args.runs
    b = {r["id"]: r for r in load("stageB.jsonl")}
    ms = [m for m in load("mutants.jsonl") if b.get(m["id"], {}).get("b") == "survived"]
    if args.only:
        ms = [m for m in ms if args.only in m["file"]]
    run_stage("stageC.jsonl", stage_c, ms, args.jobs or 2)


def cmd_report(args):
    ms = {m["id"]: m for m in load("mutants.jsonl")}
    a = {r["id"]: r for r in load("stageA.jsonl")}
    b = {r["id"]: r for r in load("stageB.jsonl")}
    for r in load("stageC.jsonl"):   # second pass over the survivors
        if r.get("c") == "caught" and b.get(r["id"], {}).get("b") == "survived":
            b[r["id"]] = dict(b[r["id"]], b="caught", by=r["by"], key=r.get("key"), second_pass=True)
    tri_p = os.path.join(VERIF, OUTDIR, "triage.json")
    tri = json.load(open(tri_p)) if os.path.exists(tri_p) else {}
    out = {"generated": len(ms), "suite_run_on": len(a), "killed_by_the_suite": sum(1 for r in a.values() if r["a"] == "killed_by_tests"),
           "survived_the_suite": sum(1 for r in a.values() if r["a"] == "survived_tests"), "scanned": len(b),
           "caught_by_the_checks": sum(1 for r in b.values() if r["b"] == "caught"), "not_caught": sum(1 for r in b.values() if r["b"] == "survived"),
           "errors": sum(1 for r in b.values() if r["b"] == "error"), "scan_runs_per_property": RUNS, "caught_by_property": {}, "not_caught_by_file": {}}
    surv = []
    for i, r in sorted(b.items(), key=lambda kv: (ms[kv[0]]["file"], ms[kv[0]]["line"])):
        m = ms[i]
        if r["b"] == "caught":
            out["caught_by_property"][r["by"]] = out["caught_by_property"].get(r["by"], 0) + 1
        elif r["b"] == "survived":
            out["not_caught_by_file"][m["file"]] = out["not_caught_by_file"].get(m["file"], 0) + 1
            src = open(os.path.join(REPO, m["file"])).read().split("\n")[m["line"] - 1].strip()
            surv.append({"id": i, "file": m["file"], "line": m["line"], "change": m["note"], "source": src[:160], "triage": tri.get(i)})
    cls = {}
    for s in surv:
        k = (s["triage"] or {}).get("class", "untriaged")
        cls[k] = cls.get(k, 0) + 1
    out["not_caught_triage"] = cls
    os.makedirs(os.path.join(VERIF, OUTDIR), exist_ok=True)
    json.dump(out, open(os.path.join(VERIF, OUTDIR, "summary.json"), "w"), indent=1, sort_keys=True)
    json.dump(surv, open(os.path.join(VERIF, OUTDIR, "not_caught.json"), "w"), indent=1)
    print(json.dumps(out, indent=1, sort_keys=True))


if __name__ == "__main__":
    import argparse
    ap = argparse.ArgumentParser()
    ap.add_argument("cmd", choices=["gen", "tests", "scan", "rescan", "report"])
    ap.add_argument("--limit", type=int, default=None)
    ap.add_argument("-j", "--jobs", type=int, default=None)
    ap.add_argument("--runs", type=int, default=150)
    ap.add_argument("--only", default=None)
    ap.add_argument("--all-props", action="store_true")
    a = ap.parse_args()
    {"gen": cmd_gen, "tests": cmd_tests, "scan": cmd_scan, "rescan": cmd_rescan, "report": cmd_report}[a.cmd](a)
