#!/bin/bash
# soak: every check under several VERIF_SEED values; prints one line per (seed, property) and every VIOLATION / HARNESS-ERROR line
# usage: tools/soak.sh "<seeds>" [tier] [props]
seeds=${1:-"1 2 3"}; tier=${2:-quick}; props=${3:-"C01 C02 C03 C04 C05 C06 C07 C08 C09 C10 C11 C12 C15 C16 C17 C18 C19 C20"}
export HIVESIM_OUT_DIR=${HIVESIM_OUT_DIR:-$(pwd)/soak_out}
mkdir -p "$HIVESIM_OUT_DIR"
bad=0
for s in $seeds; do for p in $props; do
  out=$(VERIF_SEED=$s /venv/bin/python -m hivesim check $p --tier $tier 2>&1); rc=$?
  [ $rc -ne 0 ] && bad=1
  echo "seed=$s $p exit=$rc $(echo "$out" | grep "^$p: runs" | head -1)"
  echo "$out" | grep -E "^(VIOLATION|  rule=|HARNESS-ERROR|KNOWN-FINDING)" | cut -c1-600
done; done
exit $bad
