#!/venv/bin/python
"""Confirm and archive a seeded change written by an independent sub-agent, then run the checks against it.

    tools/seeded.py confirm <worktree> <name> <property> "<what it needs to manifest>"   -> /verif/seeded/<name>/{patch.diff,demo.py,meta.json}
    tools/seeded.py run <name> [props...]                                               -> runs the quick checks against the patched copy

confirm does, in the agent's worktree (never in /repo): diff -> patch.diff; the unedited suite with the change (must be the
baseline 273 passed / 8 failed); demo.py with the change (must exit 1) and without it (must exit 0).
"""
import json
import os
import shutil
import subprocess
import sys
import time

VERIF = os.path.dirname(os.path.dirname(os.path.abspath(__file__)))
sys.path.insert(0, VERIF)
PY = "/venv/bin/python"
BASE_FAIL = {"test_initialize_simulation_with_sampling", "test_route", "test_traverse_with_enough_time", "test_traverse_without_enough_time",
             "test_sample_n_requests_default", "test_sample_n_vehicles_default", "test_sample_n_with_failure", "test_update"}


def sh(cmd, cwd, timeout=1500):
    p = subprocess.run(cmd, cwd=cwd, shell=True, capture_output=True, text=True, timeout=timeout)
    return p.returncode, p.stdout + p.stderr


def confirm(wt, name, prop, needs):
    out = os.path.join(VERIF, "seeded", name)
    os.makedirs(out, exist_ok=True)
    rc, diff = sh("git diff -- nrel", wt)
    if not diff.strip():
        print("no change in worktree")
        return 2
    with open(os.path.join(out, "patch.diff"), "w") as f:
        f.write(diff)
    demo = os.path.join(wt, "demo.py")
    if os.path.exists(demo):
        shutil.copy(demo, os.path.join(out, "demo.py"))
    log = {}
    rc, o = sh(f"{PY} -m pytest -q -p no:cacheprovider --timeout=900 --continue-on-collection-errors 2>&1 | tail -14", wt)
    summary = [l for l in o.splitlines() if " passed" in l or " failed" in l][-1:] or [o[-200:]]
    failed = {l.split("::")[-1].split(" ")[0] for l in o.splitlines() if l.startswith("FAILED")}
    log["suite_with_change"] = summary[0]
    suite_ok = "273 passed" in summary[0] and failed <= BASE_FAIL
    rc_with, o_with = sh(f"{PY} demo.py", wt, 900)
    # (not git stash: the stash is shared by all worktrees of a repository)
    sh("git checkout -- nrel", wt)
    try:
        rc_without, o_without = sh(f"{PY} demo.py", wt, 900)
    finally:
        sh(f"git apply {os.path.join(out, 'patch.diff')}", wt)
    log["demo_with_change"] = {"exit": rc_with, "tail": o_with.strip().splitlines()[-1:] if o_with.strip() else []}
    log["demo_without_change"] = {"exit": rc_without, "tail": o_without.strip().splitlines()[-1:] if o_without.strip() else []}
    ok = suite_ok and rc_with == 1 and rc_without == 0
    meta = {"name": name, "property": prop, "needs_to_manifest": needs, "confirmed": ok, "confirmed_at": time.strftime("%Y-%m-%d %H:%M:%S"),
            "what_was_run": ["git -C <worktree> diff -- nrel", "pytest (unedited suite) with the change", "demo.py with the change", "git checkout -- nrel; demo.py; git apply patch.diff"],
            "results": log, "checks": {}}
    with open(os.path.join(out, "meta.json"), "w") as f:
        json.dump(meta, f, indent=1)
    print(json.dumps(meta, indent=1))
    return 0 if ok else 1


def run(name, props):
    from hivesim.mutants import run_mutant
    out = os.path.join(VERIF, "seeded", name)
    with open(os.path.join(out, "meta.json")) as f:
        meta = json.load(f)
    props = props or [meta["property"]]
    res = run_mutant(os.path.join(out, "patch.diff"), props)
    if "error" in res:
        print(res)
        return 2
    for p, r in res.items():
        meta["checks"][p] = {"caught": r["caught"], "exit": r["exit"], "wall_s": r["wall_s"], "lines": r["lines"][:2], "at": time.strftime("%Y-%m-%d %H:%M:%S")}
        print(name, p, "caught" if r["caught"] else "MISSED", r["exit"], r["wall_s"], (r["lines"][1][:200] if len(r["lines"]) > 1 else r["lines"]))
    with open(os.path.join(out, "meta.json"), "w") as f:
        json.dump(meta, f, indent=1)
    return 0


if __name__ == "__main__":
    if sys.argv[1] == "confirm":
        sys.exit(confirm(*sys.argv[2:6]))
    if sys.argv[1] == "run":
        sys.exit(run(sys.argv[2], sys.argv[3:]))
